"""C10 translator plugin: sigpy/wavelet.py -> lean/SigpyVerif/Gen/C10Formulas.lean

What is generated (and re-checked by the Lean kernel on every run, `Props/C10.lean`):

T2  the even-padding formula (element of the padded shape `[((i + 1) // 2) * 2 for i in ...]`) at both sites
    (`get_wavelet_shape`, `fwt`) as Lean `Int` functions `waveZshapeShape` / `waveZshapeFwt`, and
    the DATA FLOW of the PyWavelets glue as string lists: for every PyWavelets / `util.resize` call the callee and
    its arguments *bound to the callee's parameter names* (value = where the argument comes from), and for each of the
    three functions the returned expression.

Normalisation before matching (round 5: robustness against behaviour-preserving re-spellings).  The three functions
(and every private helper they call) must be STRAIGHT-LINE code: docstring, `name = expr`, `a, b = expr`,
`x = []` + `for v in it: x.append(e)` (rewritten to the comprehension with the same iteration order), `return expr`.
Such a body is a pure data-flow graph, and the translator describes the graph, not its spelling:

 * every local name is replaced by the expression it holds at the point of use (reaching definition; reassigned
   names like `input` / `output` / `tmp` are followed correctly): single-assignment temporaries, hoisted
   sub-expressions, renamed locals, `a, _ = f(..)` vs `f(..)[0]` all give the same graph; module-level constants
   `NAME = <literal>` are substituted too;
 * a call to a private module-level helper `_name(...)` defined in the same file is replaced by the helper's returned
   expression with the arguments substituted for the parameters (arguments bound positionally / by keyword / by
   default against the helper's signature; recursion, `*args`, decorators, a non-straight-line body, name capture by
   a comprehension variable: `Unsupported`);
 * calls to PyWavelets (`inspect.signature` of the installed pywt), `util.resize`, `backend.to_device`,
   `backend.get_device` (signatures read from /repo) and `np.zeros` are put in keyword form in signature order, an omitted
   argument being listed with the callee's default: positional <-> keyword spelling and explicit defaults do not
   matter, a swapped or changed argument does;
 * `list(<generator>)` is the list comprehension.

Substituting an expression for a name is only a faithful description when the expressions are free of side effects,
so the set of callables is CLOSED: PyWavelets' four functions, `util.resize`, `backend.to_device/get_device`,
`np.zeros`, a few pure builtins and private helpers of the same file.  A call to anything else, a method call, an
`if` / `for` / `while` / `with` / `try` statement, `lambda`, `:=`, starred arguments ... raise `Unsupported`
(= broken obligation, never a pass).  A semantic change inside the subset (other argument, other source of an
argument, other returned value, other padding formula) changes the generated definition, and the theorems of
`Props/C10.lean` about it stop checking.

Tokens in the generated strings: `<zshape>` the padded-shape comprehension whose element formula is generated as
`waveZshape*` and which iterates over the shape being padded (`shape` in `get_wavelet_shape`, `<resized array>.shape`
in `fwt` - anything else is rendered verbatim as `<zshape over ...>`), `<dec>` / `<pack>` / `<pad>` / `<unpack>` /
`<rec>` / `<crop>` the value of the function's wavedecn / coeffs_to_array / pad-resize / array_to_coeffs / waverecn /
crop-resize call.
"""
import ast
import copy

from harness.translate import gen as G
from harness.translate import py2lean as T

U = T.Unsupported

PYWT_FUNCS = ("wavedecn", "waverecn", "coeffs_to_array", "array_to_coeffs")
PURE_BUILTINS = ("list", "tuple", "len", "int", "range", "max", "min", "zip", "reversed", "enumerate", "sorted", "abs")
EXPR_NODES = (ast.Attribute, ast.Subscript, ast.BinOp, ast.UnaryOp, ast.BoolOp, ast.Compare, ast.IfExp, ast.Tuple,
              ast.List, ast.Constant, ast.Slice)
API = {"get_wavelet_shape": ["shape", "wave_name", "axes", "level"],
       "fwt": ["input", "wave_name", "axes", "level"],
       "iwt": ["input", "oshape", "coeff_slices", "wave_name", "axes", "level"]}


def _src(node):
    return ast.unparse(node).replace('"', "'")


def _dump(node):
    return ast.dump(node)


def _dotted(f):
    if isinstance(f, ast.Name):
        return f.id
    if isinstance(f, ast.Attribute) and isinstance(f.value, ast.Name):
        return f.value.id + "." + f.attr
    return None


def _names(node, ctx=(ast.Load, ast.Store, ast.Del)):
    return {n.id for n in ast.walk(node) if isinstance(n, ast.Name) and isinstance(n.ctx, ctx)}


def _target_names(t):
    if isinstance(t, ast.Name):
        return [t.id]
    if isinstance(t, ast.Tuple) and all(isinstance(e, ast.Name) for e in t.elts):
        return [e.id for e in t.elts]
    raise U("binding target %s" % _src(t))


def _simple_params(fn):
    """[(name, default node | None)] of a def with positional-or-keyword parameters only"""
    a = fn.args
    if a.vararg or a.kwarg or a.kwonlyargs or a.posonlyargs:
        raise U("%s: only plain positional-or-keyword parameters are translated" % fn.name)
    defaults = [None] * (len(a.args) - len(a.defaults)) + list(a.defaults)
    return [(p.arg, d) for p, d in zip(a.args, defaults)]


def _loops_to_comps(stmts, where):
    """`x = []` immediately followed by `for v in it: x.append(e)` (or `x += [e]`)  ->  `x = [e for v in it]`
    (same iteration order, same element expression; the loop variable must not be read afterwards)"""
    out, i = [], 0
    while i < len(stmts):
        s = stmts[i]
        nxt = stmts[i + 1] if i + 1 < len(stmts) else None
        empty = isinstance(s, ast.Assign) and len(s.targets) == 1 and isinstance(s.targets[0], ast.Name) and (
            (isinstance(s.value, ast.List) and not s.value.elts)
            or (isinstance(s.value, ast.Call) and _dotted(s.value.func) == "list" and not s.value.args and not s.value.keywords))
        if empty and isinstance(nxt, ast.For) and not nxt.orelse and len(nxt.body) == 1:
            x, b, e = s.targets[0].id, nxt.body[0], None
            if isinstance(b, ast.Expr) and isinstance(b.value, ast.Call) and isinstance(b.value.func, ast.Attribute) \
                    and b.value.func.attr == "append" and isinstance(b.value.func.value, ast.Name) \
                    and b.value.func.value.id == x and len(b.value.args) == 1 and not b.value.keywords:
                e = b.value.args[0]
            elif isinstance(b, ast.AugAssign) and isinstance(b.op, ast.Add) and isinstance(b.target, ast.Name) \
                    and b.target.id == x and isinstance(b.value, ast.List) and len(b.value.elts) == 1:
                e = b.value.elts[0]
            if e is not None and not isinstance(e, ast.Starred):
                tn = _target_names(nxt.target)
                if x in _names(e) or x in _names(nxt.iter) or x in tn:
                    raise U("%s: accumulation loop for %s reads the list it builds" % (where, x))
                for later in stmts[i + 2:]:
                    if set(tn) & _names(later, (ast.Load,)):
                        raise U("%s: loop variable %s is read after the loop" % (where, tn))
                comp = ast.ListComp(elt=e, generators=[ast.comprehension(target=nxt.target, iter=nxt.iter, ifs=[], is_async=0)])
                out.append(ast.copy_location(ast.Assign(targets=[s.targets[0]], value=comp), s))
                i += 2
                continue
        out.append(s)
        i += 1
    return out


class Resolver:
    """straight-line function body -> the expression it returns, in terms of its parameters and module globals"""

    def __init__(self, tree):
        self.tree = tree
        self.helpers, self.consts = {}, {}
        bound = {}
        for s in tree.body:
            if isinstance(s, (ast.FunctionDef, ast.ClassDef, ast.AsyncFunctionDef)):
                bound.setdefault(s.name, []).append("def")
                if isinstance(s, ast.FunctionDef) and s.name.startswith("_"):
                    self.helpers[s.name] = s
            elif isinstance(s, ast.Import):
                for a in s.names:
                    bound.setdefault(a.asname or a.name.split(".")[0], []).append("import %s as %s" % (a.name, a.asname))
            elif isinstance(s, ast.ImportFrom):
                for a in s.names:
                    bound.setdefault(a.asname or a.name, []).append("from %s import %s as %s" % (s.module, a.name, a.asname))
            else:
                for n in ast.walk(s):
                    if isinstance(n, ast.Name) and isinstance(n.ctx, (ast.Store, ast.Del)):
                        bound.setdefault(n.id, []).append("assign")
                if isinstance(s, ast.Assign) and len(s.targets) == 1 and isinstance(s.targets[0], ast.Name) \
                        and isinstance(s.value, ast.Constant):
                    self.consts[s.targets[0].id] = s.value
        want = {"pywt": ["import pywt as None"], "np": ["import numpy as np"],
                "util": ["from sigpy import util as None"], "backend": ["from sigpy import backend as None"]}
        for k, v in want.items():
            if bound.get(k) != v:
                raise U("module-level name %s is bound by %s (expected %s)" % (k, bound.get(k), v))
        for k in list(self.consts):
            if bound.get(k) != ["assign"]:
                del self.consts[k]
        for k in PURE_BUILTINS:
            if k in bound:
                raise U("builtin %s is rebound at module level" % k)
        for k, v in bound.items():
            if k in self.helpers and v != ["def"]:
                raise U("helper %s is bound more than once" % k)
        self.sigs = self._signatures()
        self._cache = {}

    @staticmethod
    def _signatures():
        sigs = {}
        try:
            import inspect
            import pywt
            for f in PYWT_FUNCS:
                ps = []
                for p in inspect.signature(getattr(pywt, f)).parameters.values():
                    if p.kind != p.POSITIONAL_OR_KEYWORD:
                        raise U("pywt.%s: parameter kind of %s" % (f, p.name))
                    if p.default is p.empty:
                        ps.append((p.name, None))
                    elif p.default is None or isinstance(p.default, (str, int, bool)):
                        ps.append((p.name, ast.Constant(value=p.default)))
                    else:
                        raise U("pywt.%s: default of %s" % (f, p.name))
                sigs["pywt." + f] = ps
        except ImportError as e:
            raise U("PyWavelets not importable: %s" % e)
        for mod, rel, fs in [("util", "sigpy/util.py", ["resize"]), ("backend", "sigpy/backend.py", ["get_device", "to_device"])]:
            mtree = G._parse(rel)
            for f in fs:
                defs = [s for s in mtree.body if isinstance(s, ast.FunctionDef) and s.name == f]
                if len(defs) != 1:
                    raise U("%s.%s: %d module-level definitions" % (mod, f, len(defs)))
                sigs["%s.%s" % (mod, f)] = _simple_params(defs[0])
        sigs["np.zeros"] = [("shape", None), ("dtype", ast.Name(id="float", ctx=ast.Load())), ("order", ast.Constant(value="C"))]
        return sigs

    # -- binding of call arguments against a signature ------------------------------------------------------------
    @staticmethod
    def _bind(what, params, args, keywords):
        names = [p for p, _ in params]
        if len(args) > len(names):
            raise U("%s: too many positional arguments" % what)
        got = dict(zip(names, args))
        for k in keywords:
            if k.arg is None:
                raise U("%s: ** argument" % what)
            if k.arg not in names or k.arg in got:
                raise U("%s: keyword %s" % (what, k.arg))
            got[k.arg] = k.value
        return got

    # -- expressions -------------------------------------------------------------------------------------------------
    def subst(self, node, env, params, bound, stack):
        """node with every local name replaced by the expression it holds (env), helper calls inlined, known callees in
        canonical keyword form.  `bound`: comprehension variables in scope (not substituted, must not capture)."""
        rec = lambda n, b=bound: self.subst(n, env, params, b, stack)  # noqa: E731
        if isinstance(node, ast.Name):
            if not isinstance(node.ctx, ast.Load):
                raise U("name %s in a binding position" % node.id)
            if node.id in bound:
                return ast.Name(id=node.id, ctx=ast.Load())
            if node.id in env:
                val = env[node.id]
                cap = _names(val) & bound
                if cap:
                    raise U("substituting %s would capture comprehension variable %s" % (node.id, sorted(cap)))
                return copy.deepcopy(val)
            if node.id in params:
                return ast.Name(id=node.id, ctx=ast.Load())
            if node.id in self.consts:
                return copy.deepcopy(self.consts[node.id])
            return ast.Name(id=node.id, ctx=ast.Load())  # module global / builtin: rendered verbatim
        if isinstance(node, (ast.ListComp, ast.GeneratorExp)):
            b, gens = set(bound), []
            for g in node.generators:
                if g.is_async:
                    raise U("async comprehension")
                it = rec(g.iter, frozenset(b))
                tn = _target_names(g.target)
                # a comprehension variable named like a local/parameter is fine (it shadows it inside), but the names
                # substituted inside must not mention it - checked at the substitution (cap above)
                b |= set(tn)
                gens.append(ast.comprehension(target=copy.deepcopy(g.target), iter=it,
                                              ifs=[rec(c, frozenset(b)) for c in g.ifs], is_async=0))
            elt = rec(node.elt, frozenset(b))
            return type(node)(elt=elt, generators=gens)
        if isinstance(node, ast.Call):
            return self._call(node, env, params, bound, stack)
        if isinstance(node, EXPR_NODES):
            new = copy.copy(node)
            for f in node._fields:
                v = getattr(node, f)
                if isinstance(v, list):
                    setattr(new, f, [rec(x) if isinstance(x, ast.expr) else x for x in v])
                elif isinstance(v, ast.expr):
                    setattr(new, f, rec(v))
            if isinstance(node, (ast.Attribute, ast.Subscript)) and not isinstance(node.ctx, ast.Load):
                raise U("attribute/subscript in a binding position")
            if isinstance(node, (ast.Tuple, ast.List)) and any(isinstance(e, ast.Starred) for e in node.elts):
                raise U("starred element")
            return self._simplify(new)
        raise U("expression %s is outside the translated subset" % type(node).__name__)

    @staticmethod
    def _simplify(node):
        """exact rewrites of a resolved node: integer-literal arithmetic is folded (Python ints are exact), and
        `backend.to_device(x, d).shape` is `x.shape` (moving an array to another device keeps its shape: the one fact
        about sigpy.backend this translator relies on; it makes hoisting the shape computation over the move harmless)"""
        if isinstance(node, ast.BinOp) and isinstance(node.left, ast.Constant) and isinstance(node.right, ast.Constant):
            a, b = node.left.value, node.right.value
            if type(a) is int and type(b) is int:
                if isinstance(node.op, ast.Add):
                    return ast.Constant(value=a + b)
                if isinstance(node.op, ast.Sub):
                    return ast.Constant(value=a - b)
                if isinstance(node.op, ast.Mult):
                    return ast.Constant(value=a * b)
                if isinstance(node.op, ast.FloorDiv) and b != 0:
                    return ast.Constant(value=a // b)
                if isinstance(node.op, ast.Mod) and b != 0:
                    return ast.Constant(value=a % b)
        if isinstance(node, ast.Attribute) and node.attr == "shape" and isinstance(node.value, ast.Call) \
                and _dotted(node.value.func) == "backend.to_device" and not node.value.args \
                and [k.arg for k in node.value.keywords] == ["input", "device"]:
            return ast.Attribute(value=node.value.keywords[0].value, attr="shape", ctx=ast.Load())
        return node

    def _call(self, node, env, params, bound, stack):
        rec = lambda n: self.subst(n, env, params, bound, stack)  # noqa: E731
        if any(isinstance(a, ast.Starred) for a in node.args) or any(k.arg is None for k in node.keywords):
            raise U("starred call argument in %s" % _src(node))
        name = _dotted(node.func)
        head = name.split(".")[0] if name else None
        if name is None or head in bound or head in env or head in params:
            raise U("call of %s is outside the translated subset (closed set of side-effect-free callees)" % _src(node.func))
        args = [rec(a) for a in node.args]
        kws = [ast.keyword(arg=k.arg, value=rec(k.value)) for k in node.keywords]
        if name == "numpy.zeros":
            name = "np.zeros"
        if name in self.helpers:
            if name in stack:
                raise U("recursive helper %s" % name)
            hparams, hret = self.resolve(self.helpers[name], stack + (name,))
            got = self._bind(name, hparams, args, kws)
            henv = {}
            for p, d in hparams:
                if p in got:
                    henv[p] = got[p]
                elif d is not None:
                    if not isinstance(d, ast.Constant):
                        raise U("%s: default of %s is not a literal" % (name, p))
                    henv[p] = d
                else:
                    raise U("%s: argument %s missing" % (name, p))
            # substitute the (already resolved) arguments for the parameters in the helper's returned expression;
            # names of the caller bound by an enclosing comprehension stay as they are (bound), a comprehension
            # variable of the HELPER capturing a name of an argument is refused inside `subst`
            return self._subst_params(hret, henv, frozenset())
        if name in self.sigs:
            sig = self.sigs[name]
            got = self._bind(name, sig, args, kws)
            out = []
            for p, d in sig:
                if p not in got and d is None:
                    raise U("%s: argument %s missing" % (name, p))
                # an omitted argument is listed with the callee's default: explicit and implicit defaults coincide
                out.append(ast.keyword(arg=p, value=got[p] if p in got else copy.deepcopy(d)))
            return ast.Call(func=copy.deepcopy(node.func) if name != "np.zeros" else ast.Attribute(
                value=ast.Name(id="np", ctx=ast.Load()), attr="zeros", ctx=ast.Load()), args=[], keywords=out)
        if name in PURE_BUILTINS:
            if name == "list" and len(args) == 1 and not kws and isinstance(args[0], ast.GeneratorExp):
                return ast.ListComp(elt=args[0].elt, generators=args[0].generators)
            return ast.Call(func=ast.Name(id=name, ctx=ast.Load()), args=args, keywords=kws)
        raise U("call of %s is outside the translated subset (closed set of side-effect-free callees)" % name)

    def _subst_params(self, node, henv, bound):
        """capture-avoiding substitution of helper parameters by argument expressions (everything else is resolved)"""
        if isinstance(node, ast.Name):
            if node.id in bound or node.id not in henv:
                return copy.deepcopy(node)
            return copy.deepcopy(henv[node.id])
        if isinstance(node, (ast.ListComp, ast.GeneratorExp)):
            b, gens = set(bound), []
            for g in node.generators:
                it = self._subst_params(g.iter, henv, frozenset(b))
                tn = set(_target_names(g.target))
                for p, v in henv.items():
                    if p not in tn and tn & _names(v):
                        raise U("inlining would capture %s by a comprehension variable of the helper" % sorted(tn & _names(v)))
                b |= tn
                gens.append(ast.comprehension(target=copy.deepcopy(g.target), iter=it,
                                              ifs=[self._subst_params(c, henv, frozenset(b)) for c in g.ifs], is_async=0))
            return type(node)(elt=self._subst_params(node.elt, henv, frozenset(b)), generators=gens)
        new = copy.copy(node)
        for f in node._fields:
            v = getattr(node, f)
            if isinstance(v, list):
                setattr(new, f, [self._subst_params(x, henv, bound) if isinstance(x, ast.AST) else x for x in v])
            elif isinstance(v, ast.AST):
                setattr(new, f, self._subst_params(v, henv, bound))
        return self._simplify(new)

    # -- statements --------------------------------------------------------------------------------------------------
    def resolve(self, fn, stack=()):
        key = fn.name
        if key in self._cache:
            return self._cache[key]
        if fn.decorator_list:
            raise U("%s is decorated" % fn.name)
        hparams = _simple_params(fn)
        params = [p for p, _ in hparams]
        for n in ast.walk(fn):
            if isinstance(n, (ast.Global, ast.Nonlocal, ast.Lambda, ast.NamedExpr, ast.Yield, ast.YieldFrom, ast.Await)) or \
                    (n is not fn and isinstance(n, (ast.FunctionDef, ast.ClassDef, ast.AsyncFunctionDef))):
                raise U("%s: %s is outside the translated subset" % (fn.name, type(n).__name__))
        env, ret = {}, None
        body = _loops_to_comps(list(fn.body), fn.name)
        for k, s in enumerate(body):
            if ret is not None:
                raise U("%s: code after return" % fn.name)
            sub = lambda e: self.subst(e, env, params, frozenset(), stack)  # noqa: E731
            if isinstance(s, ast.Expr) and isinstance(s.value, ast.Constant) and isinstance(s.value.value, str):
                continue
            if isinstance(s, ast.Pass):
                continue
            if isinstance(s, ast.AnnAssign) and s.value is not None and isinstance(s.target, ast.Name):
                env[s.target.id] = sub(s.value)
                continue
            if isinstance(s, ast.Assign) and len(s.targets) == 1:
                tgt = s.targets[0]
                if isinstance(tgt, ast.Name):
                    env[tgt.id] = sub(s.value)
                    continue
                if isinstance(tgt, ast.Tuple) and all(isinstance(e, ast.Name) for e in tgt.elts):
                    val = sub(s.value)
                    if isinstance(val, ast.Tuple) and len(val.elts) == len(tgt.elts):
                        vals = list(val.elts)
                    elif isinstance(val, ast.Call) and _dotted(val.func) in ("pywt.coeffs_to_array",) and len(tgt.elts) == 2:
                        # unpacking a value of known length: a, b = v  ==  a = v[0]; b = v[1]
                        vals = [ast.Subscript(value=copy.deepcopy(val), slice=ast.Constant(value=j), ctx=ast.Load())
                                for j in range(len(tgt.elts))]
                    else:
                        raise U("%s: tuple unpacking of %s (length not known to the translator)" % (fn.name, _src(s.value)))
                    for e, v in zip(tgt.elts, vals):
                        env[e.id] = v
                    continue
            if isinstance(s, ast.Return):
                if s.value is None:
                    raise U("%s: bare return" % fn.name)
                ret = sub(s.value)
                continue
            raise U("%s: statement `%s` is outside the translated subset (straight-line data flow only)" % (
                fn.name, _src(s).split("\n")[0][:80]))
        if ret is None:
            raise U("%s: no return" % fn.name)
        self._cache[key] = (hparams, ret)
        return hparams, ret


# -- rendering ---------------------------------------------------------------------------------------------------------
class _Tok(ast.NodeTransformer):
    def __init__(self, tokens):
        self.tokens = tokens  # [(dump, token)]

    def visit(self, node):
        if isinstance(node, ast.expr):
            d = _dump(node)
            for k, t in self.tokens:
                if k == d:
                    return ast.Name(id=t, ctx=ast.Load())
        return self.generic_visit(node)


class _Rename(ast.NodeTransformer):
    def __init__(self, a, b):
        self.a, self.b = a, b

    def visit_Name(self, node):
        return ast.Name(id=self.b, ctx=node.ctx) if node.id == self.a else node


def _render(node, tokens):
    return _src(ast.fix_missing_locations(_Tok(tokens).visit(copy.deepcopy(node))))


def _unique_call(ret, name, where):
    found = {}
    for n in ast.walk(ret):
        if isinstance(n, ast.Call) and _dotted(n.func) == name:
            found[_dump(n)] = n
    if len(found) != 1:
        raise U("expected exactly one %s call feeding the result of %s, found %d" % (name, where, len(found)))
    return list(found.values())[0]


def _kw(call, name):
    for k in call.keywords:
        if k.arg == name:
            return k.value
    return None


def _sig(call, tokens, replace=None):
    """[callee attr, param=value ...] of a canonical (keyword-form) call"""
    replace = replace or {}
    return [call.func.attr] + [replace[k.arg] if k.arg in replace else "%s=%s" % (k.arg, _render(k.value, tokens))
                               for k in call.keywords]


class _IntExpr(T.Expr):
    """T2 with conditional expressions: `a if c else b` -> `(if c then a else b)`; an int used as a condition is
    `≠ 0` (Python truthiness).  Lets `i if i % 2 == 0 else i + 1`, `i + 1 if i % 2 else i` through; the theorems about
    the generated definition are proved by case split + linear arithmetic, whatever the spelling."""

    def e_IfExp(self, e):
        c = self.cond(e.test)
        (a, ta), (b, tb) = self.tr(e.body), self.tr(e.orelse)
        if ta != T.INT or tb != T.INT:
            raise U("conditional expression on non-int")
        return ("(if %s then %s else %s)" % (c, a, b), T.INT)

    def cond(self, e):
        if isinstance(e, (ast.BoolOp, ast.Compare)) or (isinstance(e, ast.UnaryOp) and isinstance(e.op, ast.Not)):
            return super().cond(e)
        s, t = self.tr(e)
        if t != T.INT:
            raise U("truth value of a non-int")
        return "(%s ≠ (0 : Int))" % s


def _int_formula(expr_node, int_vars):
    s, t = _IntExpr({v: T.INT for v in int_vars}).tr(expr_node)
    if t != T.INT:
        raise U("formula is not an int")
    return s


def _zshape(comp, expect_iter, where):
    """(lean body, variable, token) of the padded-shape comprehension"""
    if not isinstance(comp, ast.ListComp):
        raise U("%s: padded shape is %s, not a list comprehension" % (where, _src(comp)))
    elt, names, it = T.listcomp_elt(comp)
    if len(names) != 1:
        raise U("%s: padded-shape comprehension binds %s" % (where, names))
    tok = "<zshape>" if _dump(it) == _dump(expect_iter) else "<zshape over %s>" % _src(it)
    # the bound variable is named `i` in the generated definition whatever the source calls it
    if names[0] != "i":
        if "i" in _names(elt):
            raise U("%s: padded-shape element mentions a free name i" % where)
        elt = _Rename(names[0], "i").visit(copy.deepcopy(elt))
    return _int_formula(elt, ["i"]), "i", tok


def _lean_list(parts):
    return "[" + ", ".join(_lean_str(p) for p in parts) + "]"


def _lean_str(s):
    return '"%s"' % s.replace("\\", "\\\\").replace('"', "'").replace("\n", " ")


def gen_c10(ctx=None):
    tree = G._parse("sigpy/wavelet.py")
    out = [G.HEADER % "sigpy/wavelet.py"]
    R = Resolver(tree)
    rets = {}
    for name, want in API.items():
        fns = [s for s in tree.body if isinstance(s, ast.FunctionDef) and s.name == name]
        if len(fns) != 1:
            raise U("%d module-level definitions of %s" % (len(fns), name))
        got = [a.arg for a in fns[0].args.args]
        if got != want:
            raise U("%s signature changed: %s" % (name, got))
        rets[name] = R.resolve(fns[0])[1]
    defs = []

    # ---- get_wavelet_shape -------------------------------------------------------------------------------------------
    ret = rets["get_wavelet_shape"]
    dec = _unique_call(ret, "pywt.wavedecn", "get_wavelet_shape")
    pack = _unique_call(ret, "pywt.coeffs_to_array", "get_wavelet_shape")
    data = _kw(dec, "data")
    if not (isinstance(data, ast.Call) and _dotted(data.func) == "np.zeros"
            and _src(data) == "np.zeros(shape=%s, dtype=float, order='C')" % _src(_kw(data, "shape"))):
        raise U("get_wavelet_shape decomposes %s (expected np.zeros(<padded shape>))" % _src(data))
    comp = _kw(data, "shape")
    body, v, ztok = _zshape(comp, ast.Name(id="shape", ctx=ast.Load()), "get_wavelet_shape")
    out.append("/-- generated from `get_wavelet_shape`: element of the padded shape (iterating over `shape`) -/\n"
               "def waveZshapeShape (%s : Int) : Int := %s\n" % (T.nm(v), body))
    toks = [(_dump(comp), ztok)]
    defs.append(("waveDecCallShape", "pywt.wavedecn call of get_wavelet_shape (data: an array of the padded shape)",
                 _sig(dec, toks, {"data": "shape:" + ztok})))
    toks = [(_dump(dec), "<dec>")] + toks
    defs.append(("wavePackCallShape", "pywt.coeffs_to_array call of get_wavelet_shape", _sig(pack, toks)))
    toks = [(_dump(pack), "<pack>")] + toks
    defs.append(("waveRetShape", "value returned by get_wavelet_shape", [_render(ret, toks)]))

    # ---- fwt -------------------------------------------------------------------------------------------------------------
    ret = rets["fwt"]
    dec = _unique_call(ret, "pywt.wavedecn", "fwt")
    pack = _unique_call(ret, "pywt.coeffs_to_array", "fwt")
    pad = _kw(dec, "data")
    if not (isinstance(pad, ast.Call) and _dotted(pad.func) == "util.resize"
            and [_src(k) for k in pad.keywords[2:]] == ["ishift=None", "oshift=None"]):
        raise U("fwt decomposes %s (expected util.resize(<array>, <padded shape>) with default shifts)" % _src(pad))
    comp = _kw(pad, "oshape")
    body, v, ztok = _zshape(comp, Resolver._simplify(ast.Attribute(value=_kw(pad, "input"), attr="shape", ctx=ast.Load())), "fwt")
    out.append("/-- generated from `fwt`: element of the padded shape (iterating over the shape of the array that is padded) -/\n"
               "def waveZshapeFwt (%s : Int) : Int := %s\n" % (T.nm(v), body))
    toks = [(_dump(comp), ztok)]
    defs.append(("wavePadCallFwt", "the pad call of fwt (util.resize; default shifts)", _sig(pad, toks)))
    defs.append(("waveDecCallFwt", "pywt.wavedecn call of fwt (data: <pad>, an array of the padded shape)",
                 _sig(dec, toks, {"data": "shape:" + ztok})))
    toks = [(_dump(dec), "<dec>"), (_dump(pad), "<pad>")] + toks
    defs.append(("wavePackCallFwt", "pywt.coeffs_to_array call of fwt", _sig(pack, toks)))
    toks = [(_dump(pack), "<pack>")] + toks
    defs.append(("waveRetFwt", "value returned by fwt", [_render(ret, toks)]))

    # ---- iwt -------------------------------------------------------------------------------------------------------------
    ret = rets["iwt"]
    rec = _unique_call(ret, "pywt.waverecn", "iwt")
    unp = _unique_call(ret, "pywt.array_to_coeffs", "iwt")
    crop = _unique_call(ret, "util.resize", "iwt")
    toks = []
    defs.append(("waveUnpackCallIwt", "pywt.array_to_coeffs call of iwt",
                 _sig(unp, toks)))
    toks = [(_dump(unp), "<unpack>")] + toks
    defs.append(("waveRecCallIwt", "pywt.waverecn call of iwt", _sig(rec, toks)))
    toks = [(_dump(rec), "<rec>")] + toks
    defs.append(("waveCropCallIwt", "the crop call of iwt (util.resize; default shifts)", _sig(crop, toks)))
    toks = [(_dump(crop), "<crop>")] + toks
    defs.append(("waveRetIwt", "value returned by iwt", [_render(ret, toks)]))

    for lean, doc, parts in defs:
        out.append("/-- generated: %s -/\ndef %s : List String := %s\n" % (doc, lean, _lean_list(parts)))
    out.append("end SigpyVerif.Gen\n")
    return "\n".join(out)


GENERATORS = {"C10Formulas": gen_c10}
