"""C10 translator plugin: sigpy/wavelet.py -> lean/SigpyVerif/Gen/C10Formulas.lean

T2  the even-padding formula `zshape = [((i + 1) // 2) * 2 for i in ...]` at both sites
    (`get_wavelet_shape`, `fwt`) as Lean `Int` functions, and
    the *call structure* of the PyWavelets glue as string lists (function, data-shape source, wavelet
    argument, mode, axes, level ...), so that `Props/C10.lean` can state (and the kernel re-checks on every
    run) that the shape function and the forward transform decompose the same padded array the same way
    and that the inverse uses the mirrored call.  Anything unexpected raises `Unsupported` (= broken
    obligation, never a pass).
"""
import ast

from harness.translate import gen as G
from harness.translate import py2lean as T


def _src(node):
    return ast.unparse(node).replace('"', "'")


def _find_call(fn, attr):
    """the unique call `pywt.<attr>(...)` in fn"""
    found = []
    for n in ast.walk(fn):
        if isinstance(n, ast.Call) and isinstance(n.func, ast.Attribute) and n.func.attr == attr \
                and isinstance(n.func.value, ast.Name) and n.func.value.id == "pywt":
            found.append(n)
    if len(found) != 1:
        raise T.Unsupported("expected exactly one pywt.%s call in %s, found %d" % (attr, fn.name, len(found)))
    return found[0]


def _data_shape_source(fn, arg):
    """where the shape of the decomposed array comes from: `np.zeros(S)` -> S; a name assigned from
    `util.resize(input, S)` -> `resize:S`."""
    if isinstance(arg, ast.Call) and _src(arg.func) in ("np.zeros", "numpy.zeros") and len(arg.args) == 1:
        return "shape:" + _src(arg.args[0])
    if isinstance(arg, ast.Name):
        val = T.find_assign(fn, arg.id)
        if isinstance(val, ast.Call) and _src(val.func) == "util.resize" and len(val.args) == 2 and not val.keywords:
            return "shape:" + _src(val.args[1])
        return "expr:" + _src(val)
    return "expr:" + _src(arg)


def _call_sig(fn, call, data_as_shape=True):
    """[function, data, positional args..., k=v sorted...]"""
    parts = [call.func.attr]
    args = list(call.args)
    if args:
        parts.append(_data_shape_source(fn, args[0]) if data_as_shape else "arg:" + _src(args[0]))
        parts += ["arg:" + _src(a) for a in args[1:]]
    parts += sorted("%s=%s" % (k.arg, _src(k.value)) for k in call.keywords)
    return parts


def _pack_sig(fn):
    """coeffs_to_array must be applied to the value returned by the function's own wavedecn call"""
    call = _find_call(fn, "coeffs_to_array")
    dec = _find_call(fn, "wavedecn")
    parts = _call_sig(fn, call, data_as_shape=False)
    a0 = call.args[0] if call.args else None
    ok = False
    if isinstance(a0, ast.Name):
        for n in ast.walk(fn):  # the *first* assignment to that name must be the wavedecn call
            if isinstance(n, ast.Assign) and len(n.targets) == 1 and isinstance(n.targets[0], ast.Name) \
                    and n.targets[0].id == a0.id:
                ok = n.value is dec
                break
    parts[1] = "arg:<wavedecn result>" if ok else "arg:" + _src(a0)
    return parts


def _lean_list(parts):
    return "[" + ", ".join('"%s"' % p for p in parts) + "]"


def _zshape(fn, expect_iter):
    node = T.find_assign(fn, "zshape")
    elt, names, it = T.listcomp_elt(node)
    if _src(it) != expect_iter:
        raise T.Unsupported("zshape in %s iterates over %s (expected %s)" % (fn.name, _src(it), expect_iter))
    if len(names) != 1:
        raise T.Unsupported("zshape comprehension binds %s" % names)
    return T.formula(elt, names), names[0]


def gen_c10(ctx=None):
    tree = G._parse("sigpy/wavelet.py")
    out = [G.HEADER % "sigpy/wavelet.py"]
    f_shape = T.find_function(tree, "get_wavelet_shape")
    f_fwt = T.find_function(tree, "fwt")
    f_iwt = T.find_function(tree, "iwt")
    for fn, lean, it in [(f_shape, "waveZshapeShape", "shape"), (f_fwt, "waveZshapeFwt", "input.shape")]:
        body, v = _zshape(fn, it)
        out.append("/-- generated from `%s`: element of `zshape` (iterating over `%s`) -/\ndef %s (%s : Int) : Int := %s\n" % (
            fn.name, it, lean, T.nm(v), body))
    # signatures: the parameters the glue forwards must exist under these names
    for fn, want in [(f_shape, ["shape", "wave_name", "axes", "level"]), (f_fwt, ["input", "wave_name", "axes", "level"]),
                     (f_iwt, ["input", "oshape", "coeff_slices", "wave_name", "axes", "level"])]:
        got = [a.arg for a in fn.args.args]
        if got != want:
            raise T.Unsupported("%s signature changed: %s" % (fn.name, got))
    defs = [
        ("waveDecCallShape", "pywt.wavedecn call of get_wavelet_shape", _call_sig(f_shape, _find_call(f_shape, "wavedecn"))),
        ("waveDecCallFwt", "pywt.wavedecn call of fwt", _call_sig(f_fwt, _find_call(f_fwt, "wavedecn"))),
        ("wavePackCallShape", "pywt.coeffs_to_array call of get_wavelet_shape (first argument = result of its wavedecn call)",
         _pack_sig(f_shape)),
        ("wavePackCallFwt", "pywt.coeffs_to_array call of fwt (first argument = result of its wavedecn call)",
         _pack_sig(f_fwt)),
        ("waveRecCallIwt", "pywt.waverecn call of iwt", _call_sig(f_iwt, _find_call(f_iwt, "waverecn"), data_as_shape=False)),
        ("waveUnpackCallIwt", "pywt.array_to_coeffs call of iwt",
         _call_sig(f_iwt, _find_call(f_iwt, "array_to_coeffs"), data_as_shape=False)),
    ]
    for lean, doc, parts in defs:
        out.append("/-- generated: %s -/\ndef %s : List String := %s\n" % (doc, lean, _lean_list(parts)))
    # the final crop of iwt: `output = util.resize(output, oshape)`
    crop = None
    for n in ast.walk(f_iwt):
        if isinstance(n, ast.Call) and _src(n.func) == "util.resize":
            crop = n
    if crop is None:
        raise T.Unsupported("iwt no longer crops with util.resize")
    out.append("/-- generated: the crop call of iwt -/\ndef waveCropCallIwt : List String := %s\n" % _lean_list(
        ["resize"] + ["arg:" + _src(a) for a in crop.args] + sorted("%s=%s" % (k.arg, _src(k.value)) for k in crop.keywords)))
    # the pad call of fwt
    pad = T.find_assign(f_fwt, "zinput")
    out.append("/-- generated: the pad call of fwt -/\ndef wavePadCallFwt : List String := %s\n" % _lean_list(
        [_src(pad.func)] + ["arg:" + _src(a) for a in pad.args] + sorted("%s=%s" % (k.arg, _src(k.value)) for k in pad.keywords)
        if isinstance(pad, ast.Call) else ["expr:" + _src(pad)]))
    out.append("end SigpyVerif.Gen\n")
    return "\n".join(out)


GENERATORS = {"C10Formulas": gen_c10}
