"""Developer self-test of harness/translate/norm_c08.py (NOT part of ./check; run: /venv/bin/python -m harness.translate.norm_c08_selftest [name-substring …]).

Each variant is a textual edit of /repo's sigpy/conv.py:
  SAME     a harmless neighbouring spelling: the three generators must emit exactly the committed Gen/Conv*.lean
  DIFF     an equal integer closed form: the generated definition changes shape (the Lean proofs are robust to it)
  NOTSAME  a breaking edit: the output must differ from the committed files or the translator must reject it
Exit status 0 iff every variant behaves as expected.  (A variant whose anchor text is no longer in conv.py prints SETUP-FAIL.)
"""
import difflib
import os
import subprocess
import sys
import tempfile

from harness import common
from harness.translate import gen as G

SRC = open(os.path.join(common.REPO, "sigpy/conv.py")).read()
TMP = tempfile.mkdtemp(prefix="norm_c08_")
os.makedirs(TMP + "/sigpy", exist_ok=True)
common.REPO = TMP

LOOP_C = '''    for k in range(B):
        for j in range(c_o):
            for i in range(c_i):
                output[k, j] += signal.convolve(
                    data[k, i], filt[j, i], mode=mode
                )[slc]
'''
LOOP_D = '''    for k in range(B):
        for j in range(c_o):
            for i in range(c_i):
                output_kj[slc] = output[k, j]
                data[k, i] += signal.correlate(
                    output_kj, filt[j, i], mode=adjoint_mode
                )
'''
LOOP_F = '''    for k in range(B):
        for j in range(c_o):
            for i in range(c_i):
                output_kj[slc] = output[k, j]
                filt[j, i] += signal.correlate(
                    output_kj, data[k, i], mode=adjoint_mode
                )
'''
FULLBUF = '''        output_kj = np.zeros(
            [m_d + n_d - 1 for m_d, n_d in zip(m, n)], dtype=output.dtype
        )
'''
VALIDBUF = '''        output_kj = np.zeros(
            [max(m_d, n_d) - min(m_d, n_d) + 1 for m_d, n_d in zip(m, n)],
            dtype=output.dtype,
        )
'''
DATA_SEL = '''        if all(m_d >= n_d for m_d, n_d in zip(m, n)):
            adjoint_mode = "full"
        else:
            adjoint_mode = "valid"
'''
for x in (LOOP_C, LOOP_D, LOOP_F, FULLBUF, VALIDBUF, DATA_SEL):
    assert x in SRC, x

def rep(a, b, count=None):
    def f(s):
        assert a in s, a
        return s.replace(a, b) if count is None else s.replace(a, b, count)
    return f

def seq(*fs):
    def f(s):
        for g in fs:
            s = g(s)
        return s
    return f

HELPER_MODE = '''
def _adjoint_mode_data(m, n, mode):
    if mode == "full":
        return "valid"
    if all(m_d >= n_d for m_d, n_d in zip(m, n)):
        return "full"
    return "valid"

'''
V = []
def harmless(name, f): V.append((name, f, "SAME"))
def harmless_diff(name, f): V.append((name, f, "DIFF"))   # definition changes shape; Lean proofs must cope
def breaking(name, f): V.append((name, f, "NOTSAME"))

# ---------------- harmless neighbours
harmless("temp in loop body (convolve)", rep(LOOP_C, '''    for k in range(B):
        for j in range(c_o):
            for i in range(c_i):
                d_ki = data[k, i]
                f_ji = filt[j, i]
                full_kji = signal.convolve(d_ki, f_ji, mode=mode)
                output[k, j] += full_kji[slc]
'''))
harmless("positional mode, np.zeros positional dtype", seq(rep("data[k, i], filt[j, i], mode=mode", "data[k, i], filt[j, i], mode"),
        rep("np.zeros((B, c_o) + p, dtype=data.dtype)", "np.zeros((B, c_o) + p, data.dtype)"),
        rep("np.zeros((B, c_i) + m, dtype=output.dtype)", "np.zeros(shape=(B, c_i) + m, dtype=output.dtype)")))
harmless("keyword args to _get_convolve_params", rep('''_get_convolve_params(
        data.shape, filt.shape, mode, strides, multi_channel
    )

    # Normalize shapes.
    data = data.reshape((B, c_i) + m)
    filt = filt.reshape((c_o, c_i) + n)
    output = np.zeros''', '''_get_convolve_params(
        data.shape, filt.shape, multi_channel=multi_channel, mode=mode, strides=strides
    )

    # Normalize shapes.
    data = data.reshape((B, c_i) + m)
    filt = filt.reshape((c_o, c_i) + n)
    output = np.zeros'''))
harmless("hoisted shape and dtype temporaries", seq(rep(FULLBUF, '''        full_shape = [m_d + n_d - 1 for m_d, n_d in zip(m, n)]
        output_kj = np.zeros(full_shape, dtype=output.dtype)
'''), rep("    slc = tuple(slice(None, None, s_d) for s_d in s)\n    if mode == \"full\":\n        full_shape", "    slc = tuple(slice(None, None, s_d) for s_d in s)\n    dt = output.dtype\n    if mode == \"full\":\n        full_shape", 1),
   ))
harmless("hoisted dtype used in both branches", lambda s: s.replace('''    data = np.zeros((B, c_i) + m, dtype=output.dtype)
    slc = tuple(slice(None, None, s_d) for s_d in s)
    if mode == "full":
        output_kj = np.zeros(
            [m_d + n_d - 1 for m_d, n_d in zip(m, n)], dtype=output.dtype
        )
        adjoint_mode = "valid"
    elif mode == "valid":
        output_kj = np.zeros(
            [max(m_d, n_d) - min(m_d, n_d) + 1 for m_d, n_d in zip(m, n)],
            dtype=output.dtype,
        )''', '''    dt = output.dtype
    data = np.zeros((B, c_i) + m, dtype=dt)
    slc = tuple(slice(None, None, s_d) for s_d in s)
    if mode == "full":
        output_kj = np.zeros(
            [m_d + n_d - 1 for m_d, n_d in zip(m, n)], dtype=dt
        )
        adjoint_mode = "valid"
    elif mode == "valid":
        output_kj = np.zeros(
            [max(m_d, n_d) - min(m_d, n_d) + 1 for m_d, n_d in zip(m, n)],
            dtype=dt,
        )'''))
harmless("negated guard, swapped branches", rep(DATA_SEL, '''        if not all(m_d >= n_d for m_d, n_d in zip(m, n)):
            adjoint_mode = "valid"
        else:
            adjoint_mode = "full"
''', 1))
harmless("De Morgan any(<)", rep(DATA_SEL, '''        if any(m_d < n_d for m_d, n_d in zip(m, n)):
            adjoint_mode = "valid"
        else:
            adjoint_mode = "full"
''', 1))
harmless("De Morgan any(n_d > m_d), commuted", rep(DATA_SEL, '''        if any(n_d > m_d for m_d, n_d in zip(m, n)):
            adjoint_mode = "valid"
        else:
            adjoint_mode = "full"
''', 1))
harmless("conditional expression", rep(DATA_SEL, '''        adjoint_mode = "full" if all(n_d <= m_d for m_d, n_d in zip(m, n)) else "valid"
''', 1))
harmless("constant on the left, valid branch first", lambda s: s.replace('''    if mode == "full":
        output_kj = np.zeros(
            [m_d + n_d - 1 for m_d, n_d in zip(m, n)], dtype=output.dtype
        )
        adjoint_mode = "valid"
    elif mode == "valid":
        output_kj = np.zeros(
            [max(m_d, n_d) - min(m_d, n_d) + 1 for m_d, n_d in zip(m, n)],
            dtype=output.dtype,
        )
        if all(m_d >= n_d for m_d, n_d in zip(m, n)):
            adjoint_mode = "full"
        else:
            adjoint_mode = "valid"
''', '''    if "valid" == mode:
        output_kj = np.zeros(
            [max(m_d, n_d) - min(m_d, n_d) + 1 for m_d, n_d in zip(m, n)],
            dtype=output.dtype,
        )
        if all(m_d >= n_d for m_d, n_d in zip(m, n)):
            adjoint_mode = "full"
        else:
            adjoint_mode = "valid"
    elif "full" == mode:
        output_kj = np.zeros(
            [m_d + n_d - 1 for m_d, n_d in zip(m, n)], dtype=output.dtype
        )
        adjoint_mode = "valid"
'''))
harmless("from itertools import product", seq(rep("import numpy as np", "from itertools import product as iproduct\nimport numpy as np", 1),
    rep(LOOP_D, '''    for k, j, i in iproduct(range(B), range(c_o), range(c_i)):
        output_kj[slc] = output[k, j]
        data[k, i] += signal.correlate(output_kj, filt[j, i], mode=adjoint_mode)
''')))
harmless("np.ndindex", rep(LOOP_F, '''    for k, j, i in np.ndindex(B, c_o, c_i):
        output_kj[slc] = output[k, j]
        filt[j, i] += signal.correlate(output_kj, data[k, i], mode=adjoint_mode)
'''))
harmless("range(0, B)", rep("for k in range(B):", "for k in range(0, B):"))
harmless("helper for the adjoint mode (early returns)", seq(rep("def _convolve_data_adjoint(", HELPER_MODE + "def _convolve_data_adjoint(", 1),
    lambda s: s.replace('''        adjoint_mode = "valid"
    elif mode == "valid":
        output_kj = np.zeros(
            [max(m_d, n_d) - min(m_d, n_d) + 1 for m_d, n_d in zip(m, n)],
            dtype=output.dtype,
        )
        if all(m_d >= n_d for m_d, n_d in zip(m, n)):
            adjoint_mode = "full"
        else:
            adjoint_mode = "valid"

    for k in range(B):''', '''    elif mode == "valid":
        output_kj = np.zeros(
            [max(m_d, n_d) - min(m_d, n_d) + 1 for m_d, n_d in zip(m, n)],
            dtype=output.dtype,
        )
    adjoint_mode = _adjoint_mode_data(m, n, mode)

    for k in range(B):''', 1)))
harmless("expression helper for the buffer shape", seq(rep("def _convolve_data_adjoint(", '''def _full_shape(m, n):
    return [m_d + n_d - 1 for m_d, n_d in zip(m, n)]


def _convolve_data_adjoint(''', 1), rep(FULLBUF, '''        output_kj = np.zeros(_full_shape(m, n), dtype=output.dtype)
''')))
harmless("np.reshape(data, …)", rep("data = data.reshape((B, c_i) + m)", "data = np.reshape(data, (B, c_i) + m)"))
harmless("p via temporary in _get_convolve_params", rep('''        p = tuple(
            (m_d + n_d - 1 + s_d - 1) // s_d for m_d, n_d, s_d in zip(m, n, s)
        )''', '''        p_full = tuple(
            (m_d + n_d - 1 + s_d - 1) // s_d for m_d, n_d, s_d in zip(m, n, s)
        )
        p = p_full'''))
harmless_diff("commuted integer formula", rep("[m_d + n_d - 1 for m_d, n_d in zip(m, n)]", "[n_d - 1 + m_d for m_d, n_d in zip(m, n)]"))
harmless_diff("re-associated p formula", rep("(m_d + n_d - 1 + s_d - 1) // s_d", "(m_d + n_d + s_d - 2) // s_d"))

# ---------------- breaking edits (must not come out SAME)
breaking("product with swapped ranges", rep(LOOP_D, '''    for k, j, i in itertools.product(range(B), range(c_i), range(c_o)):
        output_kj[slc] = output[k, j]
        data[k, i] += signal.correlate(output_kj, filt[j, i], mode=adjoint_mode)
'''.replace("itertools", "__import__('itertools')")))
breaking("product with swapped ranges (imported)", seq(rep("import numpy as np", "import itertools\nimport numpy as np", 1), rep(LOOP_D, '''    for k, j, i in itertools.product(range(B), range(c_i), range(c_o)):
        output_kj[slc] = output[k, j]
        data[k, i] += signal.correlate(output_kj, filt[j, i], mode=adjoint_mode)
''')))
breaking("product target order swapped", seq(rep("import numpy as np", "import itertools\nimport numpy as np", 1), rep(LOOP_F, '''    for k, i, j in itertools.product(range(B), range(c_o), range(c_i)):
        output_kj[slc] = output[k, j]
        filt[j, i] += signal.correlate(output_kj, data[k, i], mode=adjoint_mode)
''')))
breaking("helper with wrong valid formula", seq(rep("def _convolve_data_adjoint(", '''def _zeros_unstrided_output(m, n, mode, dtype):
    if mode == "full":
        return np.zeros([m_d + n_d - 1 for m_d, n_d in zip(m, n)], dtype=dtype)
    elif mode == "valid":
        return np.zeros([max(m_d, n_d) - min(m_d, n_d) for m_d, n_d in zip(m, n)], dtype=dtype)


def _convolve_data_adjoint(''', 1), lambda s: s.replace(FULLBUF, "").replace(VALIDBUF, "").replace('''    if mode == "full":
        adjoint_mode = "valid"''', '''    output_kj = _zeros_unstrided_output(m, n, mode, output.dtype)
    if mode == "full":
        adjoint_mode = "valid"''')))
breaking("helper called with swapped m, n and filt dtype", seq(rep("def _convolve_data_adjoint(", '''def _zeros_unstrided_output(m, n, mode, dtype):
    if mode == "full":
        return np.zeros([m_d + n_d - 1 for m_d, n_d in zip(m, n)], dtype=dtype)
    elif mode == "valid":
        return np.zeros([max(m_d, n_d) - min(m_d, n_d) + 1 for m_d, n_d in zip(m, n)], dtype=dtype)


def _convolve_data_adjoint(''', 1), lambda s: s.replace(FULLBUF, "", 1).replace(VALIDBUF, "", 1).replace('''    if mode == "full":
        adjoint_mode = "valid"''', '''    output_kj = _zeros_unstrided_output(m, n, mode, filt.dtype)
    if mode == "full":
        adjoint_mode = "valid"''', 1)))
breaking("helper with side effect", seq(rep("def _convolve_data_adjoint(", '''def _full_shape(m, n):
    print(m)
    return [m_d + n_d - 1 for m_d, n_d in zip(m, n)]


def _convolve_data_adjoint(''', 1), rep(FULLBUF, '''        output_kj = np.zeros(_full_shape(m, n), dtype=output.dtype)
''')))
breaking("recursive helper", seq(rep("def _convolve_data_adjoint(", '''def _full_shape(m, n):
    return _full_shape(m, n) if False else [m_d + n_d - 1 for m_d, n_d in zip(m, n)]


def _convolve_data_adjoint(''', 1), rep(FULLBUF, '''        output_kj = np.zeros(_full_shape(m, n), dtype=output.dtype)
''')))
breaking("any instead of all without negation", rep(DATA_SEL, '''        if any(m_d >= n_d for m_d, n_d in zip(m, n)):
            adjoint_mode = "full"
        else:
            adjoint_mode = "valid"
''', 1))
breaking("negated guard, branches NOT swapped", rep(DATA_SEL, '''        if not all(m_d >= n_d for m_d, n_d in zip(m, n)):
            adjoint_mode = "full"
        else:
            adjoint_mode = "valid"
''', 1))
breaking("commuted comparison with wrong mirror", rep(DATA_SEL, '''        if all(n_d >= m_d for m_d, n_d in zip(m, n)):
            adjoint_mode = "full"
        else:
            adjoint_mode = "valid"
''', 1))
breaking("temp moved across a write (buffer read before stuffing)", rep(LOOP_D, '''    for k in range(B):
        for j in range(c_o):
            for i in range(c_i):
                term = signal.correlate(output_kj, filt[j, i], mode=adjoint_mode)
                output_kj[slc] = output[k, j]
                data[k, i] += term
'''))
breaking("hoisted buffer-source out of the loop (stale)", rep(LOOP_F, '''    for k in range(B):
        for j in range(c_o):
            o_kj = output[k, 0]
            for i in range(c_i):
                output_kj[slc] = o_kj
                filt[j, i] += signal.correlate(output_kj, data[k, i], mode=adjoint_mode)
'''))
breaking("positional args swapped for keyword call", rep("data[k, i], filt[j, i], mode=mode", "in2=data[k, i], in1=filt[j, i], mode=mode") if False else rep("output_kj, filt[j, i], mode=adjoint_mode", "in2=output_kj, in1=filt[j, i], mode=adjoint_mode"))
breaking("= instead of += written as temp", rep(LOOP_C, '''    for k in range(B):
        for j in range(c_o):
            for i in range(c_i):
                acc = output[k, j] + signal.convolve(data[k, i], filt[j, i], mode=mode)[slc]
                output[k, j] = acc
'''))
breaking("keyword args to _get_convolve_params mixed up", rep("data_shape, filt.shape, mode, strides, multi_channel", "data_shape, filt.shape, mode=mode, strides=multi_channel, multi_channel=strides"))
breaking("mode chain merged with different tests", lambda s: s.replace('''    if mode == "full":
        output_kj = np.zeros(
            [m_d + n_d - 1 for m_d, n_d in zip(m, n)], dtype=output.dtype
        )
        adjoint_mode = "valid"
    elif mode == "valid":''', '''    if mode == "full":
        output_kj = np.zeros(
            [m_d + n_d - 1 for m_d, n_d in zip(m, n)], dtype=output.dtype
        )
        adjoint_mode = "valid"
        mode = "valid"
    if mode == "valid":''', 1))


MODE_CHAIN_D = '''    if mode == "full":
        output_kj = np.zeros(
            [m_d + n_d - 1 for m_d, n_d in zip(m, n)], dtype=output.dtype
        )
        adjoint_mode = "valid"
    elif mode == "valid":
        output_kj = np.zeros(
            [max(m_d, n_d) - min(m_d, n_d) + 1 for m_d, n_d in zip(m, n)],
            dtype=output.dtype,
        )
        if all(m_d >= n_d for m_d, n_d in zip(m, n)):
            adjoint_mode = "full"
        else:
            adjoint_mode = "valid"
'''
assert MODE_CHAIN_D in SRC
harmless("else instead of elif mode == 'valid'", rep(MODE_CHAIN_D, MODE_CHAIN_D.replace('elif mode == "valid":', 'else:')))
harmless("mode != 'full' first", rep(MODE_CHAIN_D, '''    if mode != "full":
        output_kj = np.zeros(
            [max(m_d, n_d) - min(m_d, n_d) + 1 for m_d, n_d in zip(m, n)],
            dtype=output.dtype,
        )
        if all(m_d >= n_d for m_d, n_d in zip(m, n)):
            adjoint_mode = "full"
        else:
            adjoint_mode = "valid"
    else:
        output_kj = np.zeros(
            [m_d + n_d - 1 for m_d, n_d in zip(m, n)], dtype=output.dtype
        )
        adjoint_mode = "valid"
'''))
breaking("else closes the wrong mode (mode rebound)", rep(MODE_CHAIN_D, "    mode = str(mode)\n" + MODE_CHAIN_D.replace('elif mode == "valid":', 'else:')))
breaking("else branch when callee admits a third mode", seq(rep('''    else:
        raise ValueError("Invalid mode, got {}".format(mode))''', '''    elif mode == "same":
        p = tuple(m)
    else:
        raise ValueError("Invalid mode, got {}".format(mode))'''), rep(MODE_CHAIN_D, MODE_CHAIN_D.replace('elif mode == "valid":', 'else:'))))
breaking("else instead of elif, branches exchanged", rep(MODE_CHAIN_D, '''    if mode == "valid":
        output_kj = np.zeros(
            [m_d + n_d - 1 for m_d, n_d in zip(m, n)], dtype=output.dtype
        )
        adjoint_mode = "valid"
    else:
        output_kj = np.zeros(
            [max(m_d, n_d) - min(m_d, n_d) + 1 for m_d, n_d in zip(m, n)],
            dtype=output.dtype,
        )
        if all(m_d >= n_d for m_d, n_d in zip(m, n)):
            adjoint_mode = "full"
        else:
            adjoint_mode = "valid"
'''))

harmless("append loop for p", rep('''        p = tuple(
            (m_d + n_d - 1 + s_d - 1) // s_d for m_d, n_d, s_d in zip(m, n, s)
        )''', '''        p = []
        for m_d, n_d, s_d in zip(m, n, s):
            p.append((m_d + n_d - 1 + s_d - 1) // s_d)
        p = tuple(p)'''))
harmless("append loop for the buffer shape, list-comprehension slc", seq(rep(FULLBUF, '''        shape_kj = []
        for m_d, n_d in zip(m, n):
            shape_kj.append(m_d + n_d - 1)
        output_kj = np.zeros(shape_kj, dtype=output.dtype)
''', 1), rep("slc = tuple(slice(None, None, s_d) for s_d in s)", "slc = tuple([slice(None, None, s_d) for s_d in s])")))
harmless("nested ifs for the admission test", rep('''        if any(m_d >= n_d for m_d, n_d in zip(m, n)) and any(
            m_d < n_d for m_d, n_d in zip(m, n)
        ):
            raise ValueError(''', '''        if any(m_d >= n_d for m_d, n_d in zip(m, n)):
          if any(m_d < n_d for m_d, n_d in zip(m, n)):
            raise ValueError('''))
breaking("append loop over the wrong sequences", rep(FULLBUF, '''        shape_kj = []
        for m_d, n_d in zip(n, m):
            shape_kj.append(2 * m_d + n_d - 1)
        output_kj = np.zeros(shape_kj, dtype=output.dtype)
''', 1))
breaking("append loop with a second statement", rep(FULLBUF, '''        shape_kj = []
        for m_d, n_d in zip(m, n):
            shape_kj.append(m_d + n_d - 1)
            shape_kj.append(1)
        output_kj = np.zeros(shape_kj, dtype=output.dtype)
''', 1))
breaking("admission test with or", rep('''        if any(m_d >= n_d for m_d, n_d in zip(m, n)) and any(''', '''        if any(m_d >= n_d for m_d, n_d in zip(m, n)) or any('''))

only = sys.argv[1:]
bad = 0
for name, f, want in V:
    if only and not any(o in name for o in only):
        continue
    try:
        src = f(SRC)
    except AssertionError as e:
        print("SETUP-FAIL", name, str(e)[:80]); bad += 1; continue
    compile(src, "conv.py", "exec")
    open(TMP + "/sigpy/conv.py", "w").write(src)
    res, detail = [], []
    for n in ("ConvFormulas", "ConvWiring", "ConvParams"):
        ref = subprocess.run(["git", "-C", common.VERIF, "show", "HEAD:lean/SigpyVerif/Gen/%s.lean" % n], stdout=subprocess.PIPE, text=True).stdout
        try:
            t = G.GENERATORS[n](None)
            res.append("SAME" if t == ref else "DIFF")
            if t != ref:
                detail += [l for l in difflib.unified_diff(ref.split("\n"), t.split("\n"), lineterm="", n=0) if l[:1] in "+-" and l[:3] not in ("+++", "---")][:4]
        except Exception as e:
            res.append("REJ"); detail.append(repr(e)[:200])
    got = "SAME" if all(r == "SAME" for r in res) else ("REJ" if "REJ" in res else "DIFF")
    ok = (want == "SAME" and got == "SAME") or (want == "DIFF" and got == "DIFF") or (want == "NOTSAME" and got != "SAME")
    bad += not ok
    print("%-4s want=%-7s got=%-4s %s" % ("ok" if ok else "BAD", want, got, name))
    if not ok or os.environ.get("VERBOSE"):
        for d in detail: print("       ", d)
print("bad:", bad)
sys.exit(1 if bad else 0)
