"""Source normaliser for the C03 translators (harness/translate/gen_c03.py).

`normalize(tree)` rewrites the parsed `sigpy/linop.py` into a canonical spelling BEFORE the translator passes match it, so
that behaviour-preserving refactorings produce the same generated Lean definitions as the spelling they came from.  Every
rewrite is an exact Python equivalence under the stated side conditions; when a side condition cannot be established the
construct is LEFT AS IT IS (the translator then rejects it: a broken obligation, never a pass).  A semantic change survives
normalisation (it is never "normalised away"): all rewrites are equivalences, none forgets information.

Passes (in this order):
  N1  tests in negation normal form: `not (A or B)` -> `not A and not B`, `not a == b` -> `a != b`, `not a is b` -> `a is not b`
      (truthiness and short-circuit order are preserved), and `if a != b: X else: Y` -> `if a == b: Y else: X`
      (likewise `is not`, `not c`) when there is an else branch
  N2  iteration spellings: `for v in reversed(X)` -> `for v in X[::-1]` (X a name / `self.attr` that the loop body neither
      rebinds nor calls a method on), `list(reversed(X))` -> `X[::-1]`, `reversed(range(n))` -> `range(n - 1, -1, -1)`,
      `zip(X, X[1:])` -> `zip(X[:-1], X[1:])` (zip stops at the shorter argument), `X.extend(Y)` -> `X += Y` for a local
      list X (list.__iadd__ IS extend)
  N3  `a, b = e1, e2` -> `a = e1; b = e2` when no target is read by any right-hand side
  N8  `x = a if c else b` -> `if c: x = a else: x = b`
  N4  calls to small private helpers defined in the same file (`_name(..)` at module level, `self._name(..)` when no other
      class defines `_name`) are replaced by the helper's body: arguments are resolved against the signature (positional,
      keyword, defaults); an argument that is a plain name / `self.attr` / constant is substituted, any other argument is
      bound by an assignment in signature order (so evaluation order and every exception are preserved); helper locals
      that clash with a name of the caller are renamed.  Only straight-line helpers (assignments, `if` without `return`,
      one final `return`) without recursion, nested scopes, or free names shadowed by the caller are inlined.
  N5  keyword arguments of calls to functions / classes of the same file become positional where the signature allows
  N7  `if any(C for v in X): raise` / `if not all(C for v in X): raise` -> `for v in X: if C / not C: raise` (same order,
      both stop at the first offending element; v must not be used elsewhere in the function)
  N6  single-assignment temporaries whose value is total and side-effect free (`self.attr`, never-rebound parameters,
      enclosing loop variables, int constants, `len`, `+ - *`) are substituted into their uses (loop-invariant hoists,
      aliases such as `indices = self.indices`)

Integer sums and comparisons are put in canonical order by the translators themselves (they know the types: `+` on lists is
not commutative): `lin_terms`, `canon_sum`, `canon_cmp` below are the shared helpers."""
import ast
import copy

# ------------------------------------------------------------------------------------------------------------------------
# small predicates


def _is_doc(s):
    return isinstance(s, ast.Expr) and isinstance(s.value, ast.Constant) and isinstance(s.value.value, str)


def _is_self_attr(e):
    return isinstance(e, ast.Attribute) and isinstance(e.value, ast.Name) and e.value.id == "self"


def _is_int_const(e):
    return isinstance(e, ast.Constant) and isinstance(e.value, int) and not isinstance(e.value, bool)


def is_atom(e):
    """a leaf whose evaluation cannot fail or have an effect"""
    return isinstance(e, ast.Name) or _is_self_attr(e) or _is_int_const(e) \
        or (isinstance(e, ast.Constant) and e.value is None) \
        or (isinstance(e, ast.UnaryOp) and isinstance(e.op, ast.USub) and _is_int_const(e.operand))


DATA_ATTRS = {"ishape", "oshape", "shape", "ndim", "size", "dtype"}


def total_pure(e, data_attrs=False):
    """total and side-effect free (for well-typed operands): atoms, len, + - * and unary minus of such; with
    `data_attrs` also the plain data attributes `x.ishape / .oshape / .shape / .ndim / .size / .dtype` of a name"""
    if is_atom(e):
        return True
    if data_attrs and isinstance(e, ast.Attribute) and isinstance(e.value, ast.Name) and e.attr in DATA_ATTRS:
        return True
    if isinstance(e, ast.Call) and isinstance(e.func, ast.Name) and e.func.id == "len" and len(e.args) == 1 and not e.keywords:
        return total_pure(e.args[0], data_attrs)
    if isinstance(e, ast.BinOp) and isinstance(e.op, (ast.Add, ast.Sub, ast.Mult)):
        return total_pure(e.left, data_attrs) and total_pure(e.right, data_attrs)
    if isinstance(e, ast.UnaryOp) and isinstance(e.op, ast.USub):
        return total_pure(e.operand, data_attrs)
    return False


def _functions(tree):
    """every FunctionDef of the module with the name of its class (or None)"""
    out = []
    for n in tree.body:
        if isinstance(n, ast.FunctionDef):
            out.append((None, n))
        elif isinstance(n, ast.ClassDef):
            for m in n.body:
                if isinstance(m, ast.FunctionDef):
                    out.append((n.name, m))
    return out


def _blocks(node):
    """the statement lists directly owned by a compound statement / function"""
    for f in ("body", "orelse", "finalbody"):
        b = getattr(node, f, None)
        if isinstance(b, list) and b and isinstance(b[0], ast.stmt):
            yield f, b
    if isinstance(node, ast.Try):
        for h in node.handlers:
            yield "handler", h.body


def _map_blocks(node, fn):
    """apply `fn(list of statements) -> list of statements` to every statement list below `node`, innermost first"""
    for f in ("body", "orelse", "finalbody"):
        b = getattr(node, f, None)
        if isinstance(b, list) and (not b or isinstance(b[0], ast.stmt)):
            for s in b:
                if not isinstance(s, (ast.FunctionDef, ast.ClassDef, ast.AsyncFunctionDef)):
                    _map_blocks(s, fn)
            setattr(node, f, fn(b) if b else b)
    if isinstance(node, ast.Try):
        for h in node.handlers:
            for s in h.body:
                _map_blocks(s, fn)
            h.body = fn(h.body)


# ------------------------------------------------------------------------------------------------------------------------
# N1: negation normal form of tests, canonical branch order

_NEG = {ast.Eq: ast.NotEq, ast.NotEq: ast.Eq, ast.Is: ast.IsNot, ast.IsNot: ast.Is, ast.In: ast.NotIn, ast.NotIn: ast.In}


def nnf(e, neg=False):
    if isinstance(e, ast.UnaryOp) and isinstance(e.op, ast.Not):
        return nnf(e.operand, not neg)
    if isinstance(e, ast.BoolOp):
        op = e.op
        if neg:
            op = ast.Or() if isinstance(e.op, ast.And) else ast.And()
        return ast.copy_location(ast.BoolOp(op=op, values=[nnf(v, neg) for v in e.values]), e)
    if neg and isinstance(e, ast.Compare) and len(e.ops) == 1 and type(e.ops[0]) in _NEG:
        return ast.copy_location(ast.Compare(left=e.left, ops=[_NEG[type(e.ops[0])]()], comparators=e.comparators), e)
    if neg:
        return ast.copy_location(ast.UnaryOp(op=ast.Not(), operand=e), e)
    return e


class _Tests(ast.NodeTransformer):
    def visit_If(self, n):
        self.generic_visit(n)
        n.test = nnf(n.test)
        t = n.test
        negated = (isinstance(t, ast.UnaryOp) and isinstance(t.op, ast.Not)) or \
            (isinstance(t, ast.Compare) and len(t.ops) == 1 and isinstance(t.ops[0], (ast.NotEq, ast.IsNot)))
        if negated and n.orelse:
            n.test = nnf(t, True)
            n.body, n.orelse = n.orelse, n.body
        return n

    def visit_While(self, n):
        self.generic_visit(n)
        n.test = nnf(n.test)
        return n

    def visit_IfExp(self, n):
        self.generic_visit(n)
        n.test = nnf(n.test)
        return n


# ------------------------------------------------------------------------------------------------------------------------
# N2: iteration spellings

def _rev_slice(x):
    return ast.Subscript(value=x, slice=ast.Slice(lower=None, upper=None, step=ast.UnaryOp(op=ast.USub(), operand=ast.Constant(value=1))),
                         ctx=ast.Load())


def _is_call(e, name, nargs):
    return isinstance(e, ast.Call) and isinstance(e.func, ast.Name) and e.func.id == name and len(e.args) == nargs \
        and not e.keywords and not any(isinstance(a, ast.Starred) for a in e.args)


def _same(a, b):
    return ast.dump(a) == ast.dump(b)


def _touches(stmts, x):
    """does the code rebind x, assign into it, delete it or call a method on it?"""
    key = ast.dump(x)
    for s in stmts:
        for n in ast.walk(s):
            if isinstance(n, (ast.Name, ast.Attribute, ast.Subscript)) and isinstance(getattr(n, "ctx", None), (ast.Store, ast.Del)):
                base = n.value if isinstance(n, ast.Subscript) else n
                probe = copy.deepcopy(base)
                for m in ast.walk(probe):
                    if hasattr(m, "ctx"):
                        m.ctx = ast.Load()
                if ast.dump(probe) == key:
                    return True
            if isinstance(n, ast.Call) and isinstance(n.func, ast.Attribute) and ast.dump(n.func.value) == key:
                return True
            if isinstance(n, ast.AugAssign):
                probe = copy.deepcopy(n.target)
                for m in ast.walk(probe):
                    if hasattr(m, "ctx"):
                        m.ctx = ast.Load()
                if ast.dump(probe) == key:
                    return True
    return False


class _Iters(ast.NodeTransformer):
    def __init__(self, list_locals):
        self.list_locals = list_locals

    def _seq(self, x):
        return isinstance(x, ast.Name) or _is_self_attr(x)

    def visit_For(self, n):
        self.generic_visit(n)
        it = n.iter
        if _is_call(it, "reversed", 1) and self._seq(it.args[0]) and not _touches(n.body + n.orelse, it.args[0]):
            n.iter = ast.copy_location(_rev_slice(it.args[0]), it)
        return n

    def visit_comprehension(self, n):
        self.generic_visit(n)
        it = n.iter
        if _is_call(it, "reversed", 1) and self._seq(it.args[0]):
            n.iter = ast.copy_location(_rev_slice(it.args[0]), it)   # an expression cannot rebind X
        return n

    def visit_Call(self, n):
        self.generic_visit(n)
        if _is_call(n, "list", 1) and _is_call(n.args[0], "reversed", 1) and self._seq(n.args[0].args[0]):
            return ast.copy_location(_rev_slice(n.args[0].args[0]), n)
        if _is_call(n, "reversed", 1) and _is_call(n.args[0], "range", 1) and total_pure(n.args[0].args[0]):
            a = n.args[0].args[0]
            m1 = ast.UnaryOp(op=ast.USub(), operand=ast.Constant(value=1))
            return ast.copy_location(ast.Call(func=ast.Name(id="range", ctx=ast.Load()), args=[
                ast.BinOp(left=a, op=ast.Sub(), right=ast.Constant(value=1)), m1, copy.deepcopy(m1)], keywords=[]), n)
        if _is_call(n, "zip", 2) and isinstance(n.args[0], ast.Name):
            x, y = n.args
            if isinstance(y, ast.Subscript) and _same(y.value, x) and isinstance(y.slice, ast.Slice) and y.slice.step is None \
                    and y.slice.upper is None and _is_int_const(y.slice.lower) and y.slice.lower.value == 1:
                m1 = ast.UnaryOp(op=ast.USub(), operand=ast.Constant(value=1))
                n.args[0] = ast.Subscript(value=copy.deepcopy(x), slice=ast.Slice(lower=None, upper=m1, step=None), ctx=ast.Load())
        return n

    def visit_Expr(self, n):
        self.generic_visit(n)
        v = n.value
        if isinstance(v, ast.Call) and isinstance(v.func, ast.Attribute) and v.func.attr == "extend" and len(v.args) == 1 \
                and not v.keywords and isinstance(v.func.value, ast.Name) and v.func.value.id in self.list_locals \
                and not isinstance(v.args[0], ast.Starred):
            return ast.copy_location(ast.AugAssign(target=ast.Name(id=v.func.value.id, ctx=ast.Store()), op=ast.Add(), value=v.args[0]), n)
        return n


def _list_locals(fn):
    """local names whose every binding is a list display / `list(..)` (`x += ..` keeps a list a list)"""
    def is_list(v):
        return isinstance(v, (ast.List, ast.ListComp)) or _is_call(v, "list", 1) or _is_call(v, "list", 0)
    good, bad = set(), {a.arg for a in fn.args.args}
    aug = {id(n.target) for n in ast.walk(fn) if isinstance(n, ast.AugAssign) and isinstance(n.op, ast.Add)}
    plain = {}
    for n in ast.walk(fn):
        if isinstance(n, ast.Assign) and len(n.targets) == 1 and isinstance(n.targets[0], ast.Name):
            plain[id(n.targets[0])] = is_list(n.value)
    for n in ast.walk(fn):
        if isinstance(n, ast.Name) and isinstance(n.ctx, (ast.Store, ast.Del)):
            if id(n) in aug:
                continue
            if plain.get(id(n)):
                good.add(n.id)
            else:
                bad.add(n.id)
    return good - bad


# ------------------------------------------------------------------------------------------------------------------------
# N3: tuple assignment of independent values

def _split_tuples(stmts):
    out = []
    for s in stmts:
        if isinstance(s, ast.Assign) and len(s.targets) == 1 and isinstance(s.targets[0], ast.Tuple) \
                and isinstance(s.value, ast.Tuple) and len(s.value.elts) == len(s.targets[0].elts) \
                and all(isinstance(t, ast.Name) for t in s.targets[0].elts) \
                and not any(isinstance(v, ast.Starred) for v in s.value.elts):
            names = [t.id for t in s.targets[0].elts]
            read = {m.id for v in s.value.elts for m in ast.walk(v) if isinstance(m, ast.Name)}
            if len(set(names)) == len(names) and not (set(names) & read):
                for t, v in zip(s.targets[0].elts, s.value.elts):
                    out.append(ast.copy_location(ast.Assign(targets=[t], value=v), s))
                continue
        out.append(s)
    return out


def _ifexp_stmts(stmts):
    """N8: `x = a if c else b` -> `if c: x = a` / `else: x = b` (the same evaluation: c first, then exactly one arm)"""
    out = []
    for s in stmts:
        if isinstance(s, ast.Assign) and len(s.targets) == 1 and isinstance(s.targets[0], ast.Name) and isinstance(s.value, ast.IfExp):
            t = s.targets[0].id
            mk = lambda v: ast.Assign(targets=[ast.Name(id=t, ctx=ast.Store())], value=v)
            r = ast.If(test=s.value.test, body=_ifexp_stmts([mk(s.value.body)]), orelse=_ifexp_stmts([mk(s.value.orelse)]))
            ast.copy_location(r, s)
            ast.fix_missing_locations(r)
            out.append(r)
        else:
            out.append(s)
    return out


# ------------------------------------------------------------------------------------------------------------------------
# N4: inlining of small private helpers

_FORBIDDEN = (ast.Lambda, ast.Yield, ast.YieldFrom, ast.Await, ast.NamedExpr, ast.Global, ast.Nonlocal, ast.ListComp,
              ast.SetComp, ast.DictComp, ast.GeneratorExp, ast.FunctionDef, ast.ClassDef, ast.AsyncFunctionDef, ast.Starred,
              ast.Delete, ast.Import, ast.ImportFrom)
DUNDER_OR_HOOK = {"_apply", "_adjoint_linop", "_normal_linop"}


class _Helper:
    """a private function of the accepted straight-line shape"""

    def __init__(self, fn, is_method):
        self.fn, self.is_method = fn, is_method
        a = fn.args
        self.ok = False
        if a.vararg or a.kwarg or a.posonlyargs or a.kwonlyargs or fn.decorator_list:
            return
        self.params = [x.arg for x in a.args]
        if is_method and (not self.params or self.params[0] != "self"):
            return
        self.defaults = dict(zip(self.params[len(self.params) - len(a.defaults):], a.defaults))
        if not all(is_atom(d) and not isinstance(d, ast.Name) and not _is_self_attr(d) for d in self.defaults.values()):
            return
        body = [s for s in fn.body if not _is_doc(s)]
        if not body or not isinstance(body[-1], ast.Return) or body[-1].value is None:
            return
        self.body, self.ret = body[:-1], body[-1].value
        for s in self.body:
            if not self._stmt_ok(s):
                return
        for s in body:
            for n in ast.walk(s):
                if isinstance(n, _FORBIDDEN):
                    return
        self.locals = []
        for s in self.body:
            for n in ast.walk(s):
                if isinstance(n, ast.Name) and isinstance(n.ctx, ast.Store) and n.id not in self.locals:
                    self.locals.append(n.id)
        # parameters that must be materialised as variables: rebound under an `if`, or updated by `x op= ..` (which is
        # in place for a mutable argument, so it is kept as it is and never rewritten to `x = x op ..`)
        self.stored_in_if = {n.id for s in self.body if isinstance(s, ast.If) for n in ast.walk(s)
                             if isinstance(n, ast.Name) and isinstance(n.ctx, ast.Store)} | \
                            {n.target.id for s in self.body for n in ast.walk(s) if isinstance(n, ast.AugAssign)}
        names = {n.id for s in body for n in ast.walk(s) if isinstance(n, ast.Name)}
        self.free = names - set(self.params) - set(self.locals)
        self.calls = {n.func.id for s in body for n in ast.walk(s) if isinstance(n, ast.Call) and isinstance(n.func, ast.Name)} | \
                     {n.func.attr for s in body for n in ast.walk(s) if isinstance(n, ast.Call) and _is_self_attr(n.func)}
        if fn.name in self.calls:
            return   # recursion
        self.expr_only = not self.body
        self.ok = True

    def _stmt_ok(self, s):
        if isinstance(s, ast.Assign):
            return len(s.targets) == 1 and isinstance(s.targets[0], ast.Name)
        if isinstance(s, ast.AugAssign):
            return isinstance(s.target, ast.Name)
        if isinstance(s, ast.If):
            return all(self._stmt_ok(x) for x in s.body + s.orelse)
        return False


class _Subst(ast.NodeTransformer):
    """rename names / substitute atoms for loads"""

    def __init__(self, env, ren):
        self.env, self.ren = env, ren

    def visit_Name(self, n):
        if isinstance(n.ctx, ast.Load) and n.id in self.env:
            return copy.deepcopy(self.env[n.id])
        if n.id in self.ren:
            return ast.copy_location(ast.Name(id=self.ren[n.id], ctx=n.ctx), n)
        return n


class _Inliner:
    def __init__(self, tree):
        self.tree = tree
        self.helpers, self.methods = {}, {}
        counts = {}
        for cls, fn in _functions(tree):
            counts[fn.name] = counts.get(fn.name, 0) + 1
        for cls, fn in _functions(tree):
            if not fn.name.startswith("_") or fn.name.startswith("__") or fn.name in DUNDER_OR_HOOK or counts[fn.name] != 1:
                continue
            h = _Helper(fn, cls is not None)
            if h.ok:
                if cls is None:
                    self.helpers[fn.name] = h
                else:
                    self.methods[(cls, fn.name)] = h
        self.counter = getattr(self, "counter", 0)

    # -- call sites --------------------------------------------------------------------------------------------------
    def helper_of(self, call, cls):
        if not isinstance(call, ast.Call):
            return None
        f = call.func
        if isinstance(f, ast.Name) and f.id in self.helpers:
            return self.helpers[f.id]
        if _is_self_attr(f) and cls is not None and (cls, f.attr) in self.methods:
            return self.methods[(cls, f.attr)]
        return None

    def bind(self, h, call):
        """param -> argument expression (signature order), or None"""
        if any(isinstance(a, ast.Starred) for a in call.args) or any(k.arg is None for k in call.keywords):
            return None
        params = h.params[1:] if h.is_method else h.params
        if len(call.args) > len(params):
            return None
        got = dict(zip(params, call.args))
        order = list(params[:len(call.args)])
        for k in call.keywords:
            if k.arg not in params or k.arg in got:
                return None
            got[k.arg] = k.value
            order.append(k.arg)
        for p in params:
            if p not in got:
                if p not in h.defaults:
                    return None
                got[p] = h.defaults[p]
        given = [p for p in params if p in order]
        if order != given and not all(total_pure(got[p], True) for p in order):
            return None   # keywords out of signature order with fallible arguments: evaluation order would change
        return [(p, got[p]) for p in params]

    def expand(self, h, call, caller_names, caller_locals):
        """-> (statements to put in front, result expression) or None"""
        if h.free & caller_locals:
            return None   # a global the helper reads is shadowed in the caller
        b = self.bind(h, call)
        if b is None:
            return None
        env, ren, pre = {}, {}, []
        stored = set(h.locals)
        for name in [p for p, _ in b] + [x for x in h.locals if x not in dict(b)]:
            arg = dict(b).get(name)
            alias = isinstance(arg, ast.Name) and arg.id == name and name not in stored
            if name in caller_names and not alias:
                self.counter += 1
                while "%s__%d" % (name, self.counter) in caller_names:
                    self.counter += 1
                ren[name] = "%s__%d" % (name, self.counter)
        for p, arg in b:
            if isinstance(arg, ast.Name) and arg.id == p and p not in stored:
                continue   # the caller's own variable under the same name, never rebound by the helper
            if is_atom(arg) and p not in h.stored_in_if:
                env[p] = arg
            else:
                pre.append(ast.Assign(targets=[ast.Name(id=ren.get(p, p), ctx=ast.Store())], value=copy.deepcopy(arg)))
        body = []

        def run(stmts, env):
            out = []
            for s in stmts:
                s = copy.deepcopy(s)
                if isinstance(s, ast.If):
                    s.test = _Subst(env, ren).visit(s.test)
                    s.body = run(s.body, dict(env))
                    s.orelse = run(s.orelse, dict(env))
                    out.append(s)
                    continue
                if isinstance(s, ast.AugAssign):
                    s.value = _Subst(env, ren).visit(s.value)
                    s.target = ast.Name(id=ren.get(s.target.id, s.target.id), ctx=ast.Store())
                    out.append(s)
                    continue
                s.value = _Subst(env, ren).visit(s.value)
                tgt = s.targets[0].id
                env.pop(tgt, None)
                s.targets = [ast.Name(id=ren.get(tgt, tgt), ctx=ast.Store())]
                out.append(s)
            return out
        body = run(h.body, env)
        ret = _Subst(env, ren).visit(copy.deepcopy(h.ret))
        return pre + body, ret

    def block(self, stmts, cls, caller_names, caller_locals):
        out, changed = [], False
        for s in stmts:
            val = s.value if isinstance(s, (ast.Assign, ast.AugAssign, ast.Return, ast.AnnAssign)) and getattr(s, "value", None) is not None else None
            h = self.helper_of(val, cls)
            if h is not None:
                r = self.expand(h, val, caller_names, caller_locals)
                if r is not None:
                    pre, ret = r
                    s2 = copy.copy(s)
                    s2.value = ret
                    for x in pre + [s2]:
                        ast.copy_location(x, s)
                        ast.fix_missing_locations(x)
                    out.extend(pre + [s2])
                    changed = True
                    continue
            out.append(s)
        self.changed = self.changed or changed
        return _split_tuples(out) if changed else out

    def expr_calls(self, fn, cls, caller_locals):
        """expression helpers (`return <expr>` only) with total arguments may be substituted anywhere"""
        inl = self

        class V(ast.NodeTransformer):
            def visit_Call(v, n):
                v.generic_visit(n)
                h = inl.helper_of(n, cls)
                if h is None or not h.expr_only or (h.free & caller_locals):
                    return n
                b = inl.bind(h, n)
                if b is None or not all(total_pure(a, True) for _, a in b):
                    return n
                inl.changed = True
                return ast.copy_location(_Subst(dict(b), {}).visit(copy.deepcopy(h.ret)), n)
        for i, s in enumerate(fn.body):
            fn.body[i] = V().visit(s)

    def run(self):
        for _ in range(4):
            self.changed = False
            for cls, fn in _functions(self.tree):
                names = {n.id for n in ast.walk(fn) if isinstance(n, ast.Name)} | {a.arg for a in fn.args.args}
                locs = {n.id for n in ast.walk(fn) if isinstance(n, ast.Name) and isinstance(n.ctx, ast.Store)} | {a.arg for a in fn.args.args}
                _map_blocks(fn, lambda b: self.block(b, cls, names, locs))
                self.expr_calls(fn, cls, locs)
            if not self.changed:
                break
            # helpers may themselves have been simplified by the pass: re-analyse
            self.__init__(self.tree)


# ------------------------------------------------------------------------------------------------------------------------
# N5: keyword -> positional for callees of the same file

class _KwPos(ast.NodeTransformer):
    def __init__(self, tree):
        self.sig = {}
        for n in tree.body:
            fn = None
            if isinstance(n, ast.FunctionDef):
                fn, drop = n, 0
            elif isinstance(n, ast.ClassDef):
                for m in n.body:
                    if isinstance(m, ast.FunctionDef) and m.name == "__init__":
                        fn, drop = m, 1
            if fn is not None and not (fn.args.posonlyargs or fn.args.vararg):
                self.sig[n.name] = [a.arg for a in fn.args.args][drop:]

    def visit_Call(self, n):
        self.generic_visit(n)
        if isinstance(n.func, ast.Name) and n.func.id in self.sig and not any(isinstance(a, ast.Starred) for a in n.args):
            params = self.sig[n.func.id]
            while n.keywords and n.keywords[0].arg is not None and len(n.args) < len(params) \
                    and n.keywords[0].arg == params[len(n.args)]:
                n.args.append(n.keywords.pop(0).value)
        return n


# ------------------------------------------------------------------------------------------------------------------------
# N6: single-assignment temporaries

def _propagate(fn):
    """substitute `t = <total pure expression over stable names>` into the uses of t; returns True if something changed"""
    for n in ast.walk(fn):
        if n is not fn and isinstance(n, (ast.FunctionDef, ast.Lambda, ast.ClassDef, ast.AsyncFunctionDef, ast.Global, ast.Nonlocal)):
            return False
    params = [a.arg for a in fn.args.args]
    stores = {}
    for n in ast.walk(fn):
        if isinstance(n, ast.Name) and isinstance(n.ctx, (ast.Store, ast.Del)):
            stores[n.id] = stores.get(n.id, 0) + 1
    attr_stores = {n.attr for n in ast.walk(fn) if _is_self_attr(n) and isinstance(n.ctx, (ast.Store, ast.Del))}
    comp_bound = {m.id for n in ast.walk(fn) if isinstance(n, ast.comprehension) for m in ast.walk(n.target) if isinstance(m, ast.Name)}

    # a call that is handed `self` (a method call on self, or `f(self)`) may rebind any attribute
    self_escapes = any(isinstance(n, ast.Call) and (_is_self_attr(n.func) or any(isinstance(a, ast.Name) and a.id == "self" for a in n.args))
                       for n in ast.walk(fn))

    def stable(e, loopvars):
        if self_escapes and any(_is_self_attr(m) for m in ast.walk(e)):
            return False
        for m in ast.walk(e):
            if isinstance(m, ast.Name) and m.id != "self" and m.id != "len":
                if m.id in comp_bound:
                    return False
                if m.id in params and stores.get(m.id, 0) == 0:
                    continue
                if m.id in loopvars and stores.get(m.id, 0) == 1:
                    continue
                return False
            if _is_self_attr(m) and m.attr in attr_stores:
                return False
        return True

    def visit(block, loopvars):
        for i, s in enumerate(block):
            if isinstance(s, ast.Assign) and len(s.targets) == 1 and isinstance(s.targets[0], ast.Name):
                t = s.targets[0].id
                if stores.get(t) == 1 and t not in params and t not in comp_bound and total_pure(s.value) \
                        and stable(s.value, loopvars):
                    # every load of t must lie behind the assignment in the same block (any depth)
                    inside = sum(1 for r in block[i + 1:] for m in ast.walk(r) if isinstance(m, ast.Name) and m.id == t)
                    total = sum(1 for m in ast.walk(fn) if isinstance(m, ast.Name) and m.id == t)
                    if inside == total - 1:
                        sub = _Subst({t: s.value}, {})
                        for j in range(i + 1, len(block)):
                            block[j] = sub.visit(block[j])
                        del block[i]
                        return True
            lv = loopvars
            if isinstance(s, ast.For):
                lv = loopvars | {m.id for m in ast.walk(s.target) if isinstance(m, ast.Name)}
            for _, b in _blocks(s):
                if visit(b, lv):
                    return True
        return False
    return visit(fn.body, frozenset())


# ------------------------------------------------------------------------------------------------------------------------
# N7: `if any(C for v in X): raise E` / `if not all(C for v in X): raise E`  ->  `for v in X: if C / not C: raise E`
# (same iteration order, stops at the first offending element either way)

def _guard_loops(fn):
    used = {}
    for n in ast.walk(fn):
        if isinstance(n, ast.Name):
            used[n.id] = used.get(n.id, 0) + 1

    def one(stmts):
        out = []
        for s in stmts:
            r = None
            if isinstance(s, ast.If) and not s.orelse and len(s.body) == 1 and isinstance(s.body[0], ast.Raise):
                t, neg = s.test, False
                if isinstance(t, ast.UnaryOp) and isinstance(t.op, ast.Not):
                    t, neg = t.operand, True
                if isinstance(t, ast.Call) and isinstance(t.func, ast.Name) and t.func.id == ("all" if neg else "any") \
                        and len(t.args) == 1 and not t.keywords and isinstance(t.args[0], ast.GeneratorExp) \
                        and len(t.args[0].generators) == 1:
                    g = t.args[0].generators[0]
                    inner = sum(1 for m in ast.walk(t.args[0]) if isinstance(m, ast.Name) and isinstance(g.target, ast.Name) and m.id == g.target.id)
                    raised = {m.id for m in ast.walk(s.body[0]) if isinstance(m, ast.Name)}
                    if isinstance(g.target, ast.Name) and not g.ifs and not g.is_async and used.get(g.target.id) == inner \
                            and g.target.id not in raised \
                            and not any(isinstance(m, (ast.Lambda, ast.GeneratorExp, ast.ListComp, ast.SetComp, ast.DictComp, ast.NamedExpr, ast.Yield, ast.Await))
                                        for m in ast.walk(t.args[0].elt)):
                        test = nnf(t.args[0].elt, neg)
                        r = ast.For(target=ast.Name(id=g.target.id, ctx=ast.Store()), iter=g.iter,
                                    body=[ast.If(test=test, body=s.body, orelse=[])], orelse=[])
                        ast.copy_location(r, s)
                        ast.fix_missing_locations(r)
            out.append(r if r is not None else s)
        return out
    _map_blocks(fn, one)


# ------------------------------------------------------------------------------------------------------------------------

def normalize(tree):
    tree = copy.deepcopy(tree)
    for cls, fn in _functions(tree):
        _Tests().visit(fn)
        _Iters(_list_locals(fn)).visit(fn)
        _map_blocks(fn, _split_tuples)
        _map_blocks(fn, _ifexp_stmts)
        _Tests().visit(fn)
        _guard_loops(fn)
    _Inliner(tree).run()
    _KwPos(tree).visit(tree)
    for cls, fn in _functions(tree):
        _Tests().visit(fn)   # inlined bodies
        for _ in range(50):
            if not _propagate(fn):
                break
    ast.fix_missing_locations(tree)
    return tree


# ------------------------------------------------------------------------------------------------------------------------
# canonical order of integer sums and comparisons (used by the translators, which know the types)

def lin_terms(e, sign=1):
    """flatten a tree of + / - / unary minus into [(sign, leaf)] in source order"""
    if isinstance(e, ast.BinOp) and isinstance(e.op, ast.Add):
        return lin_terms(e.left, sign) + lin_terms(e.right, sign)
    if isinstance(e, ast.BinOp) and isinstance(e.op, ast.Sub):
        return lin_terms(e.left, sign) + lin_terms(e.right, -sign)
    if isinstance(e, ast.UnaryOp) and isinstance(e.op, ast.USub):
        return lin_terms(e.operand, -sign)
    if isinstance(e, ast.UnaryOp) and isinstance(e.op, ast.UAdd):
        return lin_terms(e.operand, sign)
    return [(sign, e)]


def canon_sum(terms):
    """terms: [(sign, key, payload)] with key = None for an int constant (payload = its value).
    -> (positive payloads, negative payloads, constant) with variables sorted by key; a variable that occurs with both
    signs is cancelled pairwise"""
    k = sum(s * p for s, key, p in terms if key is None)
    pos = sorted([(key, i, p) for i, (s, key, p) in enumerate(terms) if key is not None and s > 0], key=lambda x: (x[0], x[1]))
    neg = sorted([(key, i, p) for i, (s, key, p) in enumerate(terms) if key is not None and s < 0], key=lambda x: (x[0], x[1]))
    P, N = [], list(neg)
    for key, i, p in pos:
        hit = next((j for j, (k2, _, _) in enumerate(N) if k2 == key), None)
        if hit is None:
            P.append((key, p))
        else:
            del N[hit]
    return P, [(key, p) for key, _, p in N], k


def canon_cmp(terms, op):
    """`L op R` given as the terms of `L - R` -> (P, kl, Q, kr, op') meaning `sum(P) + kl op' sum(Q) + kr` (kl >= 0) with
    canonical sides:
    `>` / `>=` / `<` all become `<=` (ints: `a < b` is `a + 1 <= b`); for `==` / `!=` the sides are oriented by the FIRST variable in the order of the
    reversed spelling (an arbitrary but fixed total order, chosen so that the spellings sigpy uses today are canonical);
    variables stay on the side their sign puts them and the folded constant goes to the right
    (`n + 1 == nops`, `nops - 1 == n`, `nops == n + 1` all become `n == nops - 1`)"""
    P, Q, k = canon_sum(terms)
    flip = False
    if isinstance(op, ast.Gt):      # ints: a > b  is  a >= b + 1
        op, k = ast.GtE(), k - 1
    if isinstance(op, ast.Lt):      # ints: a < b  is  a + 1 <= b
        op, k = ast.LtE(), k + 1
    if isinstance(op, (ast.Gt, ast.GtE)):
        op, flip = (ast.Lt() if isinstance(op, ast.Gt) else ast.LtE()), True
    elif isinstance(op, (ast.Eq, ast.NotEq)):
        keys = sorted([key for key, _ in P] + [key for key, _ in Q], key=lambda x: x[::-1])
        flip = (keys[0] not in [key for key, _ in P]) if keys else k > 0
    if flip:
        P, Q, k = Q, P, -k
    if isinstance(op, ast.LtE) and k > 0:
        return P, k, Q, 0, op      # an order comparison keeps its constant on the side where it is positive: `1 <= s`
    return P, 0, Q, -k, op


def _sum_ast(pos, neg):
    acc = None
    for p in pos:
        acc = p if acc is None else ast.BinOp(left=acc, op=ast.Add(), right=p)
    for q in neg:
        acc = ast.UnaryOp(op=ast.USub(), operand=q) if acc is None else ast.BinOp(left=acc, op=ast.Sub(), right=q)
    return ast.Constant(value=0) if acc is None else acc


def canon_int_test(e):
    """canonical spelling of a test whose names are ALL ints (the caller guarantees it): every single comparison of
    sums of names / int constants is rebuilt by `canon_cmp`; `and` / `or` / `not` keep their operand order"""
    if isinstance(e, ast.BoolOp):
        return ast.copy_location(ast.BoolOp(op=e.op, values=[canon_int_test(v) for v in e.values]), e)
    if isinstance(e, ast.UnaryOp) and isinstance(e.op, ast.Not):
        return ast.copy_location(ast.UnaryOp(op=e.op, operand=canon_int_test(e.operand)), e)
    if isinstance(e, ast.Compare) and len(e.ops) == 1 and isinstance(e.ops[0], (ast.Eq, ast.NotEq, ast.Lt, ast.LtE, ast.Gt, ast.GtE)):
        lin = lin_terms(e.left) + lin_terms(e.comparators[0], -1)
        if all(isinstance(l, ast.Name) or _is_int_const(l) for _, l in lin):
            terms = [(s, None, l.value) if _is_int_const(l) else (s, l.id, l) for s, l in lin]
            P, kl, Q, kr, op = canon_cmp(terms, e.ops[0])
            lhs = _sum_ast([p for _, p in P] + ([ast.Constant(value=kl)] if kl > 0 else []), [])
            c = ast.Constant(value=abs(kr))
            rhs = _sum_ast([q for _, q in Q] + ([c] if kr > 0 else []), [c] if kr < 0 else [])
            out = ast.Compare(left=lhs, ops=[op], comparators=[rhs])
            ast.copy_location(out, e)
            return ast.fix_missing_locations(out)
    return e


_NEG_INT = {ast.Lt: ast.GtE, ast.LtE: ast.Gt, ast.Gt: ast.LtE, ast.GtE: ast.Lt, ast.Eq: ast.NotEq, ast.NotEq: ast.Eq}


def neg_int_test(e, neg=True):
    """the negation of a test over ints, pushed down to the comparisons (`not a < b` is `a >= b` for ints)"""
    if isinstance(e, ast.UnaryOp) and isinstance(e.op, ast.Not):
        return neg_int_test(e.operand, not neg)
    if isinstance(e, ast.BoolOp):
        op = e.op if not neg else (ast.Or() if isinstance(e.op, ast.And) else ast.And())
        return ast.copy_location(ast.BoolOp(op=op, values=[neg_int_test(v, neg) for v in e.values]), e)
    if isinstance(e, ast.Compare) and len(e.ops) == 1 and type(e.ops[0]) in _NEG_INT:
        if not neg:
            return e
        return ast.copy_location(ast.Compare(left=e.left, ops=[_NEG_INT[type(e.ops[0])]()], comparators=e.comparators), e)
    return ast.copy_location(ast.UnaryOp(op=ast.Not(), operand=e), e) if neg else e


# ------------------------------------------------------------------------------------------------------------------------
# self-test (run on every check: harness/props/c03.py translate): pairs that MUST normalise to the same program and pairs
# that MUST stay different (a normaliser that forgets information would merge them)

_SAME = [
    ("def f(a, b):\n    if not (a == -1 or b == a):\n        raise E\n", "def f(a, b):\n    if a != -1 and b != a:\n        raise E\n"),
    ("def f(n):\n    if n != 0:\n        x = g(n)\n    else:\n        x = 0\n    return x\n", "def f(n):\n    if n == 0:\n        x = 0\n    else:\n        x = g(n)\n    return x\n"),
    ("def f(self, y):\n    for l in reversed(self.ls):\n        y = l(y)\n    return y\n", "def f(self, y):\n    for l in self.ls[::-1]:\n        y = l(y)\n    return y\n"),
    ("def f(ls):\n    for a, b in zip(ls, ls[1:]):\n        g(a, b)\n", "def f(ls):\n    for a, b in zip(ls[:-1], ls[1:]):\n        g(a, b)\n"),
    ("def _h(nd, ax, s, e):\n    ax = ax % nd\n    return [0] * ax + [(s, e)] + [0] * (nd - ax - 1)\n\ndef f(self, x, s, e):\n    r = _h(len(x.shape), self.axis, s, e)\n    return x[r]\n",
     "def _h(nd, ax, s, e):\n    ax = ax % nd\n    return [0] * ax + [(s, e)] + [0] * (nd - ax - 1)\n\ndef f(self, x, s, e):\n    nd = len(x.shape)\n    ax = self.axis % nd\n    r = [0] * ax + [(s, e)] + [0] * (nd - ax - 1)\n    return x[r]\n"),
    ("def _h(a, b=2):\n    return a - b\n\ndef f(x):\n    return g(_h(b=1, a=x))\n", "def _h(a, b=2):\n    return a - b\n\ndef f(x):\n    return g(x - 1)\n"),
    ("def f(self, xs):\n    k = self.n - 1\n    for i, x in enumerate(xs):\n        if i == k:\n            g(x)\n", "def f(self, xs):\n    for i, x in enumerate(xs):\n        if i == self.n - 1:\n            g(x)\n"),
    ("def f(shape):\n    if any(s <= 0 for s in shape):\n        raise E\n", "def f(shape):\n    for s in shape:\n        if s <= 0:\n            raise E\n"),
    ("def f(xs):\n    out = []\n    for x in xs:\n        out.extend(x.ys)\n    return out\n", "def f(xs):\n    out = []\n    for x in xs:\n        out += x.ys\n    return out\n"),
    ("def g(a, k=0):\n    return a\n\ndef f(x):\n    return g(x, k=1)\n", "def g(a, k=0):\n    return a\n\ndef f(x):\n    return g(x, 1)\n"),
    ("def f(n, ind):\n    s = 0 if n == 0 else ind[n - 1]\n    return s\n", "def f(n, ind):\n    if n != 0:\n        s = ind[n - 1]\n    else:\n        s = 0\n    return s\n"),
]
_DIFFERENT = [
    ("def f(a, b):\n    if not (a == -1 and b == a):\n        raise E\n", "def f(a, b):\n    if a != -1 and b != a:\n        raise E\n"),
    ("def f(n):\n    if n != 0:\n        x = 0\n    else:\n        x = g(n)\n    return x\n", "def f(n):\n    if n == 0:\n        x = 0\n    else:\n        x = g(n)\n    return x\n"),
    ("def f(self, y):\n    for l in reversed(self.ls):\n        y = l(y)\n    return y\n", "def f(self, y):\n    for l in self.ls:\n        y = l(y)\n    return y\n"),
    ("def f(ls):\n    for a, b in zip(ls, ls[2:]):\n        g(a, b)\n", "def f(ls):\n    for a, b in zip(ls[:-1], ls[1:]):\n        g(a, b)\n"),
    # the helper is handed the rank of a different array
    ("def _h(nd, ax):\n    return ax % nd\n\ndef f(self, x, y):\n    r = _h(len(y.shape), self.axis)\n    return x[r]\n", "def _h(nd, ax):\n    return ax % nd\n\ndef f(self, x, y):\n    r = self.axis % len(x.shape)\n    return x[r]\n"),
    # a helper with an effect is not inlined
    ("def _h(a):\n    print(a)\n    return a\n\ndef f(x):\n    y = _h(x)\n    return y\n", "def _h(a):\n    print(a)\n    return a\n\ndef f(x):\n    y = x\n    return y\n"),
    # a temporary that is rebound in the loop is not substituted
    ("def f(self, xs):\n    k = self.n - 1\n    for i, x in enumerate(xs):\n        k = k - 1\n        if i == k:\n            g(x)\n", "def f(self, xs):\n    for i, x in enumerate(xs):\n        if i == self.n - 1:\n            g(x)\n"),
    # a recursive helper is not inlined
    ("def _h(a):\n    return _h(a - 1)\n\ndef f(x):\n    return _h(x)\n", "def _h(a):\n    return _h(a - 1)\n\ndef f(x):\n    return _h(x - 1)\n"),
    ("def f(shape):\n    if any(s < 0 for s in shape):\n        raise E\n", "def f(shape):\n    for s in shape:\n        if s <= 0:\n            raise E\n"),
]


def selftest():
    """-> list of failures (empty = fine)"""
    bad = []

    def fns(src):
        t = normalize(ast.parse(src))
        return ast.unparse([n for n in t.body if isinstance(n, ast.FunctionDef) and n.name == "f"][0])
    for i, (a, b) in enumerate(_SAME):
        if fns(a) != fns(b):
            bad.append("same[%d]: %r vs %r" % (i, fns(a), fns(b)))
    for i, (a, b) in enumerate(_DIFFERENT):
        if fns(a) == fns(b):
            bad.append("different[%d] merged into %r" % (i, fns(a)))
    # canonical integer comparisons: equal ones meet, unequal ones do not
    def cmp(src):
        return ast.unparse(canon_int_test(ast.parse(src, mode="eval").body))
    for group in (["n == m - 1", "n + 1 == m", "m - 1 == n", "m == 1 + n", "0 == n - m + 1"], ["s > 0", "0 < s", "s >= 1", "1 <= s", "not s <= 0"],
                  ["a != -1", "-1 != a", "not a == -1"]):
        forms = {cmp(ast.unparse(neg_int_test(ast.parse(g, mode="eval").body, False))) for g in group}
        if len(forms) != 1:
            bad.append("comparisons %r -> %r" % (group, sorted(forms)))
    for a, b in (("n == m - 1", "n == m - 2"), ("s > 0", "s >= 0"), ("n == m - 1", "n == m + 1"), ("a != -1", "a != 1"), ("a < b", "b < a")):
        if cmp(a) == cmp(b):
            bad.append("comparisons %r and %r merged" % (a, b))
    return bad
