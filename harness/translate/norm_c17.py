"""Behaviour-preserving normalisation of the Python AST of `sigpy.mri.app.EspiritCalib` BEFORE the C17 translators
(harness/translate/gen_c17.py) match it.  Every pass rewrites the tree into a tree with the same meaning, so the
translators stay exactly as strict as before on the normal form; whatever a pass cannot handle is either left as
it is (the matcher then rejects it) or raises `Unsupported` — both are a broken obligation, never a pass.

Passes (in this order, to a fixed point where it matters):
  1. inline calls to small PRIVATE helpers defined in the same file (module-level `_f(..)` or `self._m(..)`):
     arguments are resolved against the helper's signature (positional / keyword / constant defaults), the helper's
     locals are renamed apart, the body is substituted at the call site.  Fail-closed: recursion, `with`/`try`/
     `while`/`raise`/`yield`/nested `def`/`lambda`/`global`, `*args`, a `return` that is not the last statement, or a
     helper name that clashes with a local of the caller are `Unsupported`.
  2. positional <-> keyword arguments of the calls the translators look at, resolved against the callee's signature
     (sigpy callees: read from the checked-out source; numpy callees: the documented signature).
  3. commuted integer products / sums (`k**d * nc` -> `nc * k**d`), `n * [v]` -> `[v] * n`, `-1 + x` -> `x - 1`,
     flipped comparisons (`b < a` -> `a > b`, `b <= a` -> `a >= b`).
  4. single-assignment temporaries and loop-invariant hoists whose name the translators do not know are inlined
     (pure right-hand side, no store to / call on any of its roots between the definition and the last use).
  5. `if not c: A else: B` -> `if c: B else: A`; `if c: return X` + trailing statements -> if/else;
     `return X if c else Y` -> if/else.

Trusted: Python aliasing is not tracked (a temporary's right-hand side is assumed not to be mutated through ANOTHER name
between its definition and its use).
"""
import ast
import copy
import os

from harness import common
from harness.translate import py2lean as T

MAX_DEPTH = 4

# names the translators refer to (never inlined away)
# (`calib_shape`, `img_shape`, `num_kernels` are NOT kept: the normal form has them inlined, so a maintainer may keep or drop them)
KEEP_INIT = {"calib", "mat", "VH", "S", "_", "aH", "a", "AHA", "alg", "img_ndim", "num_coils", "xp",
             "kernels", "img_kernel", "kernel", "forward", "normalize", "x"}
KEEP_OUTPUT = {"xp", "mps", "max_eig"}
# integer-valued names (the widths / counts of the property's domain), in canonical operand order
INT_ORDER = ["num_kernels", "num_coils", "calib_width", "kernel_width", "img_ndim", "max_iter"]

# names whose values cannot be mutated in place (integers, floats, tuples, modules): only re-binding matters
IMMUTABLE = set(INT_ORDER) | {"img_shape", "ksp.shape", "ksp.ndim", "thresh", "crop", "sp", "xp", "np", "sp.prod"}

PURE_CALLS = {"len", "range", "min", "max", "tuple", "list", "sp.prod", "xp.conj", "xp.abs", "xp.sqrt", "xp.sum",
              "xp.expand_dims", "np.prod"}

# ndarray methods that neither mutate the receiver nor their arguments
PURE_METHODS = {"reshape", "transpose", "swapaxes", "conj", "copy", "max", "min", "sum", "astype", "item"}

# numpy callees: documented signatures; value = (parameters, number of positional arguments in the canonical spelling)
NUMPY_SIGS = {
    "xp.expand_dims": (["a", "axis"], 1),
    "xp.sum": (["a", "axis", "dtype", "out", "keepdims", "initial", "where"], 1),
    "xp.zeros": (["shape", "dtype", "order"], 1),
    "xp.ones": (["shape", "dtype", "order"], 1),
    "xp.linalg.svd": (["a", "full_matrices", "compute_uv", "hermitian"], 1),
}
# (ufuncs `xp.conj` / `xp.abs` and ndarray methods such as `.swapaxes` / `.reshape` are positional-only: a keyword spelling of
#  those is a TypeError, not a harmless variant, and is left as written for the matcher to reject)
METHOD_SIGS = {}
# sigpy callees: chain -> (file, qualname, drop self?, canonical number of positional arguments)
SIGPY_SIGS = {
    "sp.resize": ("sigpy/util.py", "resize", False, 2),
    "sp.prod": ("sigpy/util.py", "prod", False, 1),
    "sp.array_to_blocks": ("sigpy/block.py", "array_to_blocks", False, 3),
    "sp.ifft": ("sigpy/fourier.py", "ifft", False, 1),
    "sp.to_device": ("sigpy/backend.py", "to_device", False, 2),
    "sp.Device": ("sigpy/backend.py", "Device.__init__", True, 1),
    "sp.alg.PowerMethod": ("sigpy/alg.py", "PowerMethod.__init__", True, 2),
    "super().__init__": ("sigpy/app.py", "App.__init__", True, 1),
}


def chain(node):
    """dotted spelling of a Name / Attribute chain (`super().__init__` included), else None"""
    parts = []
    while isinstance(node, ast.Attribute):
        parts.append(node.attr)
        node = node.value
    if isinstance(node, ast.Name):
        parts.append(node.id)
    elif isinstance(node, ast.Call) and isinstance(node.func, ast.Name) and node.func.id == "super" and not node.args and not node.keywords:
        parts.append("super()")
    else:
        return None
    return ".".join(reversed(parts))


def _is_doc(st):
    return isinstance(st, ast.Expr) and isinstance(st.value, ast.Constant) and isinstance(st.value.value, str)


def _stored_names(node):
    return {n.id for n in ast.walk(node) if isinstance(n, ast.Name) and isinstance(n.ctx, (ast.Store, ast.Del))}


def _loaded_names(node):
    return {n.id for n in ast.walk(node) if isinstance(n, ast.Name) and isinstance(n.ctx, ast.Load)}


def _params(fn):
    a = fn.args
    return [p.arg for p in a.posonlyargs + a.args + a.kwonlyargs]


class _Rename(ast.NodeTransformer):
    def __init__(self, m):
        self.m = m

    def visit_Name(self, n):
        if n.id in self.m:
            return ast.copy_location(ast.Name(id=self.m[n.id], ctx=n.ctx), n)
        return n


class _Subst(ast.NodeTransformer):
    """replace loads of a name by (a copy of) an expression"""

    def __init__(self, m):
        self.m = m

    def visit_Name(self, n):
        if isinstance(n.ctx, ast.Load) and n.id in self.m:
            return copy.deepcopy(self.m[n.id])
        return n


# =====================================================================================================
#  1. helper inlining
# =====================================================================================================
class Inliner:
    HELPER_STMTS = (ast.Assign, ast.AugAssign, ast.For, ast.If, ast.Expr, ast.Return, ast.Pass)
    FORBIDDEN = (ast.With, ast.Try, ast.While, ast.Raise, ast.Yield, ast.YieldFrom, ast.Await, ast.FunctionDef, ast.AsyncFunctionDef,
                 ast.Lambda, ast.Global, ast.Nonlocal, ast.ClassDef, ast.Delete, ast.Import, ast.ImportFrom, ast.Assert,
                 ast.AsyncFor, ast.AsyncWith, ast.NamedExpr, ast.Starred)

    def __init__(self, tree, cls, hooks):
        self.funcs = {n.name: n for n in tree.body if isinstance(n, ast.FunctionDef) and n.name.startswith("_") and not n.name.startswith("__")}
        self.meths = {n.name: n for n in cls.body if isinstance(n, ast.FunctionDef) and n.name.startswith("_")
                      and not n.name.startswith("__") and n.name not in hooks}
        # a helper name that is bound in any other way (assignment, import, class, second def; `self._m = ...`) is not inlined:
        # the call stays as written and the matcher rejects it
        rebound = []
        for n in tree.body:
            if isinstance(n, ast.FunctionDef):
                rebound.append(n.name)
            elif isinstance(n, ast.ClassDef):
                rebound.append(n.name)
            else:
                rebound += list(_stored_names(n)) + [a.asname or a.name.split(".")[0] for m in ast.walk(n) if isinstance(m, (ast.Import, ast.ImportFrom)) for a in m.names]
        for k in [k for k in self.funcs if rebound.count(k) != 1]:
            del self.funcs[k]
        attr_stores = [n.attr for n in ast.walk(cls) if isinstance(n, ast.Attribute) and isinstance(n.ctx, (ast.Store, ast.Del))]
        names = [n.name for n in cls.body if isinstance(n, ast.FunctionDef)]
        for k in [k for k in self.meths if k in attr_stores or names.count(k) != 1]:
            del self.meths[k]
        self.fresh = 0
        self.used = []
        self.caller_locals = set()

    # ---- which helper does a call refer to
    def helper_of(self, call):
        f = call.func
        if isinstance(f, ast.Name) and f.id in self.funcs and f.id not in self.caller_locals:
            return self.funcs[f.id], False
        if isinstance(f, ast.Attribute) and isinstance(f.value, ast.Name) and f.value.id == "self" and f.attr in self.meths:
            return self.meths[f.attr], True
        return None, False

    def calls_in(self, node):
        return [n for n in ast.walk(node) if isinstance(n, ast.Call) and self.helper_of(n)[0] is not None]

    # ---- validation of a helper body
    def check_helper(self, fn, is_meth):
        if fn.decorator_list:
            raise T.Unsupported("private helper %s has decorators" % fn.name)
        a = fn.args
        if a.vararg or a.kwarg:
            raise T.Unsupported("private helper %s takes *args / **kwargs" % fn.name)
        for d in list(a.defaults) + [d for d in a.kw_defaults if d is not None]:
            if not isinstance(d, ast.Constant):
                raise T.Unsupported("private helper %s: non-constant default" % fn.name)
        body = [s for s in fn.body if not _is_doc(s)]
        for n in ast.walk(ast.Module(body=body, type_ignores=[])):
            if isinstance(n, self.FORBIDDEN):
                raise T.Unsupported("private helper %s contains %s (outside the inlinable subset)" % (fn.name, type(n).__name__))
            if isinstance(n, ast.stmt) and not isinstance(n, self.HELPER_STMTS):
                raise T.Unsupported("private helper %s contains %s" % (fn.name, type(n).__name__))
        rets = [n for n in ast.walk(ast.Module(body=body, type_ignores=[])) if isinstance(n, ast.Return)]
        if len(rets) > 1 or (rets and rets[0] is not body[-1]):
            raise T.Unsupported("private helper %s: `return` is not the single last statement" % fn.name)
        ps = _params(fn)
        if is_meth:
            if not ps or ps[0] != "self" or "self" in _stored_names(ast.Module(body=body, type_ignores=[])):
                raise T.Unsupported("private method %s: first parameter is not an unassigned `self`" % fn.name)
        ret = rets[0].value if rets else None
        return body[:-1] if rets else body, ret, ps

    def bind(self, fn, call, ps, is_meth):
        a = fn.args
        formal = ps[1:] if is_meth else ps
        nkw = len(a.kwonlyargs)
        positional = formal[:len(formal) - nkw]
        got = {}
        if len(call.args) > len(positional):
            raise T.Unsupported("call of %s: too many positional arguments" % fn.name)
        for p, v in zip(positional, call.args):
            got[p] = v
        for k in call.keywords:
            if k.arg is None or k.arg not in formal or k.arg in got:
                raise T.Unsupported("call of %s: keyword %s" % (fn.name, k.arg))
            got[k.arg] = k.value
        allpos = [p.arg for p in a.posonlyargs + a.args]
        dflt = dict(zip(allpos[len(allpos) - len(a.defaults):], a.defaults))
        dflt.update({p.arg: d for p, d in zip(a.kwonlyargs, a.kw_defaults) if d is not None})
        for p in formal:
            if p not in got:
                if p not in dflt:
                    raise T.Unsupported("call of %s: argument %s missing" % (fn.name, p))
                got[p] = dflt[p]
        return [(p, got[p]) for p in formal]

    # ---- the substitution
    def expand(self, fn, is_meth, call, target, caller_locals, stack):
        """statements replacing `target = call` (target None: value discarded) and the expression of the result"""
        if fn.name in stack or len(stack) >= MAX_DEPTH:
            raise T.Unsupported("private helper %s is recursive / nested too deep" % fn.name)
        body, ret, ps = self.check_helper(fn, is_meth)
        binds = self.bind(fn, call, ps, is_meth)
        mod = ast.Module(body=body + ([ast.Expr(value=ret)] if ret is not None else []), type_ignores=[])
        local = _stored_names(mod) | set(ps)
        free = _loaded_names(mod) - local
        clash = free & caller_locals
        if clash:
            raise T.Unsupported("private helper %s reads global(s) %s that are locals of the caller" % (fn.name, sorted(clash)))
        self.fresh += 1
        ren = {v: "_h%d_%s" % (self.fresh, v) for v in local if v != "self"}
        # the returned local takes the name of the assignment target when that cannot capture anything
        rname = ret.id if isinstance(ret, ast.Name) and ret.id in local and ret.id != "self" else None
        if rname is not None and target is not None and target not in free:
            ok = True
            for p, v in binds:
                if target in _loaded_names(v) and not (p == rname and isinstance(v, ast.Name) and v.id == target):
                    ok = False
            if ok:
                ren[rname] = target
        out = []
        for p, v in binds:
            v = copy.deepcopy(v)
            if isinstance(v, ast.Name) and v.id == ren[p]:
                continue                                         # `T = T`
            out.append(ast.Assign(targets=[ast.Name(id=ren[p], ctx=ast.Store())], value=v, lineno=call.lineno, col_offset=0))
        rn = _Rename(ren)
        for s in body:
            out.append(rn.visit(copy.deepcopy(s)))
        rexpr = rn.visit(copy.deepcopy(ret)) if ret is not None else None
        self.used.append(fn.name)
        return out, rexpr

    def is_expr_helper(self, fn):
        body = [s for s in fn.body if not _is_doc(s)]
        return len(body) == 1 and isinstance(body[0], ast.Return) and body[0].value is not None

    def inline_expr_calls(self, st, caller_locals, stack):
        """helper calls in expression position: only single-`return` helpers; each parameter is replaced by the argument"""
        inl = self

        class V(ast.NodeTransformer):
            def visit_Call(self, n):
                n = self.generic_visit(n)
                fn, is_meth = inl.helper_of(n)
                if fn is None:
                    return n
                if not inl.is_expr_helper(fn) or fn.name in stack or len(stack) >= MAX_DEPTH:
                    raise T.Unsupported("call of private helper %s in a position the inliner does not handle" % fn.name)
                body, ret, ps = inl.check_helper(fn, is_meth)
                if any(isinstance(m, (ast.ListComp, ast.SetComp, ast.DictComp, ast.GeneratorExp)) for m in ast.walk(ret)):
                    raise T.Unsupported("private helper %s: comprehension in an expression helper" % fn.name)
                binds = inl.bind(fn, n, ps, is_meth)
                free = _loaded_names(ret) - set(ps)
                if free & caller_locals:
                    raise T.Unsupported("private helper %s reads global(s) that are locals of the caller" % fn.name)
                uses = {}
                for m in ast.walk(ret):
                    if isinstance(m, ast.Name):
                        uses[m.id] = uses.get(m.id, 0) + 1
                for p, v in binds:
                    atomic = isinstance(v, (ast.Name, ast.Constant)) or (chain(v) is not None)
                    if not atomic and uses.get(p, 0) > 1:
                        raise T.Unsupported("private helper %s: non-atomic argument used more than once" % fn.name)
                    if not is_pure(v):
                        raise T.Unsupported("private helper %s: impure argument" % fn.name)
                inl.used.append(fn.name)
                return inl.inline_expr_calls(_Subst(dict(binds)).visit(copy.deepcopy(ret)), caller_locals, stack + [fn.name])
        return V().visit(st)

    def stmts(self, body, caller_locals, stack=()):
        stack = list(stack)
        out = []
        for st in body:
            if isinstance(st, (ast.FunctionDef, ast.With, ast.For, ast.If)):
                for f in ("body", "orelse"):
                    if getattr(st, f, None):
                        setattr(st, f, self.stmts(getattr(st, f), caller_locals, stack))
                hdr = [getattr(st, "test", None), getattr(st, "iter", None)] + [i.context_expr for i in getattr(st, "items", [])]
                if any(h is not None and self.calls_in(h) for h in hdr):
                    raise T.Unsupported("private helper called in a loop / guard / with header")
                out.append(st)
                continue
            if not self.calls_in(st):
                out.append(st)
                continue
            val = getattr(st, "value", None)
            fn, is_meth = self.helper_of(val) if isinstance(val, ast.Call) else (None, False)
            whole = fn is not None and not any(self.calls_in(a) for a in list(val.args) + [k.value for k in val.keywords])
            if whole and isinstance(st, ast.Assign) and len(st.targets) == 1 and isinstance(st.targets[0], ast.Name):
                tgt = st.targets[0].id
                new, rexpr = self.expand(fn, is_meth, val, tgt, caller_locals, stack)
                if rexpr is None:
                    rexpr = ast.Constant(value=None)
                if not (isinstance(rexpr, ast.Name) and rexpr.id == tgt):
                    new.append(ast.Assign(targets=[ast.Name(id=tgt, ctx=ast.Store())], value=rexpr, lineno=st.lineno, col_offset=0))
            elif whole and isinstance(st, ast.Expr):
                new, rexpr = self.expand(fn, is_meth, val, None, caller_locals, stack)
                if rexpr is not None and not is_pure(rexpr):
                    new.append(ast.Expr(value=rexpr))
            elif whole and isinstance(st, ast.Return):
                new, rexpr = self.expand(fn, is_meth, val, None, caller_locals, stack)
                new.append(ast.Return(value=rexpr))
            else:
                out.append(self.inline_expr_calls(st, caller_locals, stack))
                continue
            caller_locals = caller_locals | _stored_names(ast.Module(body=new, type_ignores=[]))
            out.extend(self.stmts(new, caller_locals, stack + [fn.name]))
        return out


# =====================================================================================================
#  2. positional <-> keyword
# =====================================================================================================
def load_sigs():
    sigs = dict(NUMPY_SIGS)
    trees = {}
    for ch, (rel, qual, drop, npos) in SIGPY_SIGS.items():
        try:
            if rel not in trees:
                with open(os.path.join(common.REPO, rel)) as f:
                    trees[rel] = ast.parse(f.read())
            fn = T.find_function(trees[rel], qual)
            a = fn.args
            if a.vararg or a.kwarg or a.posonlyargs or a.kwonlyargs:
                continue
            ps = [p.arg for p in a.args]
            sigs[ch] = (ps[1:] if drop else ps, npos)
        except Exception:  # noqa  (callee not found: no canonicalisation; the matcher sees the call as written)
            continue
    return sigs


class CanonCalls(ast.NodeTransformer):
    def __init__(self, sigs):
        self.sigs = sigs

    def visit_Call(self, n):
        n = self.generic_visit(n)
        ch = chain(n.func)
        sig = self.sigs.get(ch)
        if sig is None and isinstance(n.func, ast.Attribute):
            sig = METHOD_SIGS.get(n.func.attr)
        if sig is None:
            return n
        ps, npos = sig
        if any(isinstance(a, ast.Starred) for a in n.args) or any(k.arg is None for k in n.keywords) or len(n.args) > len(ps):
            return n
        got = dict(zip(ps, n.args))
        for k in n.keywords:
            if k.arg not in ps or k.arg in got:
                return n
            got[k.arg] = k.value
        if any(p not in got for p in ps[:npos]):
            return n
        n.args = [got[p] for p in ps[:npos]]
        n.keywords = [ast.keyword(arg=p, value=got[p]) for p in ps[npos:] if p in got]
        return n


# =====================================================================================================
#  3. commuted integer expressions, flipped comparisons
# =====================================================================================================
def is_int(e):
    if isinstance(e, ast.Constant):
        return isinstance(e.value, int) and not isinstance(e.value, bool)
    if isinstance(e, ast.Name):
        return e.id in INT_ORDER
    if isinstance(e, ast.Attribute):
        return e.attr == "ndim" and isinstance(e.value, ast.Name)
    if isinstance(e, ast.Call):
        return isinstance(e.func, ast.Name) and e.func.id == "len" and len(e.args) == 1 and not e.keywords
    if isinstance(e, ast.UnaryOp):
        return isinstance(e.op, (ast.USub, ast.UAdd)) and is_int(e.operand)
    if isinstance(e, ast.BinOp):
        return isinstance(e.op, (ast.Add, ast.Sub, ast.Mult, ast.Pow, ast.FloorDiv, ast.Mod)) and is_int(e.left) and is_int(e.right) \
            and not (isinstance(e.op, ast.Pow) and not (isinstance(e.right, ast.Name) or (isinstance(e.right, ast.Constant) and e.right.value >= 0)))
    return False


def _key(e):
    names = [n.id for n in ast.walk(e) if isinstance(n, ast.Name)]
    if not names:
        return (1, 0, ast.unparse(e))
    return (0, INT_ORDER.index(names[0]) if names[0] in INT_ORDER else len(INT_ORDER), ast.unparse(e))


def _negconst(e):
    if isinstance(e, ast.Constant) and isinstance(e.value, int) and not isinstance(e.value, bool) and e.value < 0:
        return -e.value
    if isinstance(e, ast.UnaryOp) and isinstance(e.op, ast.USub) and isinstance(e.operand, ast.Constant) \
            and isinstance(e.operand.value, int) and not isinstance(e.operand.value, bool) and e.operand.value > 0:
        return e.operand.value
    return None


class CanonExpr(ast.NodeTransformer):
    def visit_Compare(self, n):
        n = self.generic_visit(n)
        if len(n.ops) == 1 and isinstance(n.ops[0], (ast.Lt, ast.LtE)):
            op = ast.Gt() if isinstance(n.ops[0], ast.Lt) else ast.GtE()
            return ast.copy_location(ast.Compare(left=n.comparators[0], ops=[op], comparators=[n.left]), n)
        return n

    def visit_BinOp(self, n):
        n = self.generic_visit(n)
        if isinstance(n.op, ast.Mult) and isinstance(n.right, ast.List) and not isinstance(n.left, ast.List) and is_int(n.left):
            return ast.copy_location(ast.BinOp(left=n.right, op=ast.Mult(), right=n.left), n)      # n * [v] == [v] * n
        if isinstance(n.op, (ast.Add, ast.Mult)) and is_int(n):
            ops = []

            def flat(e):
                if isinstance(e, ast.BinOp) and type(e.op) is type(n.op):
                    flat(e.left)
                    flat(e.right)
                else:
                    ops.append(e)
            flat(n)
            ops.sort(key=_key)
            e = ops[0]
            for o in ops[1:]:
                c = _negconst(o) if isinstance(n.op, ast.Add) else None
                if c is not None:
                    e = ast.BinOp(left=e, op=ast.Sub(), right=ast.Constant(value=c))               # x + -c == x - c
                else:
                    e = ast.BinOp(left=e, op=type(n.op)(), right=o)
            return ast.copy_location(e, n)
        return n


# =====================================================================================================
#  4. single-assignment temporaries / hoists
# =====================================================================================================
def is_pure(e):
    for n in ast.walk(e):
        if isinstance(n, ast.Call):
            ch = chain(n.func)
            if ch not in PURE_CALLS or any(isinstance(a, ast.Starred) for a in n.args):
                return False
        elif not isinstance(n, (ast.Name, ast.Constant, ast.Attribute, ast.BinOp, ast.UnaryOp, ast.List, ast.Tuple, ast.Subscript,
                                ast.Slice, ast.Compare, ast.keyword, ast.expr_context, ast.operator, ast.unaryop, ast.cmpop)):
            return False
    return True


def _roots(e):
    """dotted chains (or bare names) an expression reads"""
    out = set()

    def go(n):
        ch = chain(n) if isinstance(n, (ast.Attribute, ast.Name)) else None
        if ch is not None and not ch.startswith("super()"):
            out.add(ch)
            return
        for c in ast.iter_child_nodes(n):
            go(c)
    go(e)
    return out


def _interferes(c, r):
    return c == r or c.startswith(r + ".") or r.startswith(c + ".")


def _touches(st, roots, temp, last_use=False):
    """does statement `st` (header only for compound statements) possibly change what `roots` evaluate to?
    `last_use`: `st` is the last statement that reads the temporary — what it stores happens after its value is evaluated"""
    if isinstance(st, (ast.FunctionDef,)):
        return st.name in roots
    mut = {r for r in roots if r not in IMMUTABLE and r.split(".")[0] not in ("sp", "xp", "np")}
    parts = []
    if isinstance(st, (ast.With, ast.For, ast.If)):
        parts = [getattr(st, "test", None), getattr(st, "iter", None), getattr(st, "target", None)] + [i.context_expr for i in getattr(st, "items", [])]
        parts = [p for p in parts if p is not None]
        last_use = False
    else:
        parts = [st]
        last_use = last_use and isinstance(st, (ast.Assign, ast.AugAssign, ast.Return, ast.Expr))
    for p in parts:
        for n in ast.walk(p):
            if not last_use and isinstance(n, (ast.Name, ast.Attribute, ast.Subscript)) and isinstance(getattr(n, "ctx", None), (ast.Store, ast.Del)):
                base = n
                while isinstance(base, ast.Subscript):
                    base = base.value
                ch = chain(base)
                if ch is None or any(_interferes(ch, r) for r in roots):
                    return True
            if not last_use and isinstance(n, ast.AugAssign):
                base = n.target
                while isinstance(base, ast.Subscript):
                    base = base.value
                ch = chain(base)
                if ch is None or any(_interferes(ch, r) for r in roots):
                    return True
            if isinstance(n, ast.Call) and chain(n.func) not in PURE_CALLS \
                    and not (isinstance(n.func, ast.Attribute) and n.func.attr in PURE_METHODS and chain(n.func.value) is not None
                             and chain(n.func.value).split(".")[0] not in ("sp", "xp", "np", "self")):
                f = n.func
                if isinstance(f, ast.Attribute):
                    ch = chain(f.value)
                    if ch is not None and any(_interferes(ch, r) for r in mut):
                        return True                               # method call on a root
                for a in list(n.args) + [k.value for k in n.keywords]:
                    if any(any(_interferes(c, r) for r in mut) for c in _roots(a)):
                        return True                               # a root handed to an unknown callee
    return False


def inline_temps(fn, keep):
    """inline `t = <pure expr>` for names the translators do not know; nested functions are scopes of their own"""
    for st in ast.walk(fn):
        if isinstance(st, ast.FunctionDef) and st is not fn:
            inline_temps(st, keep)
    changed = True
    while changed:
        changed = False
        seq = []                                  # (index, stmt, ancestors, container list)

        def walk(body, anc):
            for st in body:
                seq.append((st, tuple(anc), body))
                if isinstance(st, (ast.With, ast.For, ast.If, ast.FunctionDef)):
                    walk(st.body, anc + [st])
                    if getattr(st, "orelse", None):
                        walk(st.orelse, anc + [st])
        walk(fn.body, [])
        own = [s for s in seq if not any(isinstance(a, ast.FunctionDef) for a in s[1])]
        params = set(_params(fn))
        stores = {}
        for i, (st, anc, body) in enumerate(seq):
            hdr = st if not isinstance(st, (ast.With, ast.For, ast.If, ast.FunctionDef)) else \
                ast.Module(body=[ast.Expr(value=x) for x in [getattr(st, "target", None)] if x is not None], type_ignores=[])
            if any(isinstance(a, ast.FunctionDef) for a in anc):
                continue
            for nme in _stored_names(hdr):
                stores.setdefault(nme, []).append(i)
        for t, where in stores.items():
            if t in keep or t in params or len(where) != 1:
                continue
            i = where[0]
            st, anc, body = seq[i]
            if not (isinstance(st, ast.Assign) and len(st.targets) == 1 and isinstance(st.targets[0], ast.Name) and is_pure(st.value)):
                continue
            if t in _loaded_names(st.value):
                continue
            uses = []
            for j, (s2, anc2, _) in enumerate(seq):
                hdr2 = s2
                if isinstance(s2, (ast.With, ast.For, ast.If)):
                    hdr2 = ast.Module(body=[ast.Expr(value=x) for x in [getattr(s2, "test", None), getattr(s2, "iter", None)] +
                                            [it.context_expr for it in getattr(s2, "items", [])] if x is not None], type_ignores=[])
                elif isinstance(s2, ast.FunctionDef):
                    hdr2 = ast.Module(body=[], type_ignores=[])
                if t in _loaded_names(hdr2):
                    uses.append(j)
            if not uses or min(uses) <= i:
                continue
            if any(anc2[:len(anc)] != anc for anc2 in (seq[j][1] for j in uses)):
                continue                                          # the definition does not dominate a use
            roots = _roots(st.value)
            deferred = any(len(seq[j][1]) > len(anc) and any(isinstance(a, (ast.For, ast.FunctionDef)) for a in seq[j][1][len(anc):]) for j in uses) \
                or any(isinstance(a, ast.For) for a in anc)
            end = len(seq) - 1 if deferred else max(uses)
            if any(_touches(seq[j][0], roots, t, last_use=(not deferred and j == end)) for j in range(i + 1, end + 1)):
                continue
            # capture: a use inside a nested def / comprehension / lambda that binds one of the names of the right-hand side
            names = _loaded_names(st.value)
            bad = False
            for n in ast.walk(fn):
                if isinstance(n, (ast.ListComp, ast.SetComp, ast.DictComp, ast.GeneratorExp, ast.Lambda)) and t in _loaded_names(n):
                    bad = True
                if isinstance(n, ast.FunctionDef) and n is not fn and (t in _loaded_names(n) or t in _stored_names(n)) \
                        and (set(_params(n)) | _stored_names(n)) & (names | {t}):
                    bad = True
            if bad:
                continue
            body.remove(st)
            sub = _Subst({t: st.value})
            for j in uses:
                s2 = seq[j][0]
                if isinstance(s2, (ast.With, ast.For, ast.If)):
                    for f in ("test", "iter"):
                        if getattr(s2, f, None) is not None:
                            setattr(s2, f, sub.visit(getattr(s2, f)))
                    for it in getattr(s2, "items", []):
                        it.context_expr = sub.visit(it.context_expr)
                else:
                    sub.visit(s2)
            changed = True
            break
    return fn


# =====================================================================================================
#  5. guards
# =====================================================================================================
def canon_guards(body):
    out = []
    for k, st in enumerate(body):
        for f in ("body", "orelse"):
            if isinstance(st, (ast.With, ast.For, ast.If, ast.FunctionDef)) and getattr(st, f, None):
                setattr(st, f, canon_guards(getattr(st, f)))
        if isinstance(st, ast.Return) and isinstance(st.value, ast.IfExp):
            st = ast.If(test=st.value.test, body=[ast.Return(value=st.value.body)], orelse=[ast.Return(value=st.value.orelse)])
        if isinstance(st, ast.If) and not st.orelse and st.body and isinstance(st.body[-1], ast.Return) and body[k + 1:]:
            st.orelse = canon_guards(body[k + 1:])
            out.append(_unnot(st))
            return out
        if isinstance(st, ast.If):
            st = _unnot(st)
        out.append(st)
    return out


def _unnot(st):
    while isinstance(st.test, ast.UnaryOp) and isinstance(st.test.op, ast.Not) and st.orelse:
        st.test, st.body, st.orelse = st.test.operand, st.orelse, st.body
    return st


# =====================================================================================================
def app_hooks():
    with open(os.path.join(common.REPO, "sigpy/app.py")) as f:
        tree = ast.parse(f.read())
    app = [n for n in tree.body if isinstance(n, ast.ClassDef) and n.name == "App"]
    if len(app) != 1:
        raise T.Unsupported("sigpy/app.py: class App")
    return {n.name for n in app[0].body if isinstance(n, ast.FunctionDef)}


def canon_stmt_text(src, sigs):
    """normal form of one statement given as text (used for the translators' own reference spellings)"""
    m = ast.parse(src)
    m = CanonExpr().visit(CanonCalls(sigs).visit(m))
    return ast.unparse(ast.fix_missing_locations(m))


def normalise(tree, clsname="EspiritCalib"):
    """-> (tree', info): the class's `__init__` / `_output` in normal form (the tree is modified in place: pass a fresh parse)"""
    cls = [n for n in tree.body if isinstance(n, ast.ClassDef) and n.name == clsname]
    if len(cls) != 1:
        raise T.Unsupported("class %s" % clsname)
    cls = cls[0]
    hooks = app_hooks()
    inl = Inliner(tree, cls, hooks)
    sigs = load_sigs()
    for fn in cls.body:
        if not isinstance(fn, ast.FunctionDef) or fn.name not in ("__init__", "_output"):
            continue
        locs = set(_params(fn)) | _stored_names(fn)
        inl.caller_locals = set(locs)
        fn.body = inl.stmts(fn.body, locs)
        CanonCalls(sigs).visit(fn)
        CanonExpr().visit(fn)
        inline_temps(fn, KEEP_INIT if fn.name == "__init__" else KEEP_OUTPUT)
        CanonExpr().visit(fn)                      # operands brought together by the inlining
        fn.body = canon_guards(fn.body)
        ast.fix_missing_locations(fn)
    # private helpers that are not App hooks are not part of the modelled class body once inlined
    extra = [n.name for n in cls.body if isinstance(n, ast.FunctionDef) and n.name in inl.meths]
    cls.body = [n for n in cls.body if not (isinstance(n, ast.FunctionDef) and n.name in inl.meths)]
    return tree, dict(inlined=sorted(set(inl.used)), private_methods=extra, sigs=sigs)
