"""Translator passes for C09 (and every property that imports Gen.Block / Gen.UtilFormulas / Gen.LinopFormulas):
the same three generators as harness/translate/gen.py, but the source is NORMALISED first
(harness/translate/gen_c09norm.py), so that behaviour-preserving respellings generate the SAME Lean text:

  Gen.Block          kernels through CanonKernel (commuted / re-associated index arithmetic, oriented
                     comparisons, De Morgan, negated guards), `num_blks` through comp_formula
  Gen.UtilFormulas   `util.resize` after inlining private helpers of util.py, for-append loops read as
                     comprehensions, comprehension variables named by their ITERABLES (ishape1 -> i, ...)
  Gen.LinopFormulas  constructor formulas named by their iterables, canonical arithmetic

On the pinned source each generator prints exactly what gen.py printed (the canonical print order was
chosen that way), so no theorem about the generated definitions had to change.  Fail-closed: whatever the
normaliser or the matchers do not recognise raises Unsupported -> broken obligation `translate:Gen.<Name>`.
The entries below REPLACE the ones registered by gen.py (plugins are loaded after it).
"""
import ast

from harness.translate import gen as G0
from harness.translate import gen_c09norm as N
from harness.translate import py2lean as T


def _assign_value(fn, target, where):
    """value of THE assignment `target = ...` that defines the default / the formula: the first plain
    assignment to the name in the (normalised) function body, as in gen.py"""
    return T.find_assign(fn, target)


def gen_block(ctx=None):
    tree = G0._parse("sigpy/block.py")
    out = [G0.HEADER % "sigpy/block.py"]
    specs = [
        ("_array_to_blocks1", "a2b1", ["batch_size", "Bx", "Sx", "Nx"]),
        ("_array_to_blocks2", "a2b2", ["batch_size", "Bx", "By", "Sx", "Sy", "Nx", "Ny"]),
        ("_array_to_blocks3", "a2b3", ["batch_size", "Bx", "By", "Bz", "Sx", "Sy", "Sz", "Nx", "Ny", "Nz"]),
        ("_blocks_to_array1", "b2a1", ["batch_size", "Bx", "Sx", "Nx"]),
        ("_blocks_to_array2", "b2a2", ["batch_size", "Bx", "By", "Sx", "Sy", "Nx", "Ny"]),
        ("_blocks_to_array3", "b2a3", ["batch_size", "Bx", "By", "Bz", "Sx", "Sy", "Sz", "Nx", "Ny", "Nz"]),
    ]
    for py, lean, params in specs:
        fn = T.find_function(tree, py)
        got = [a.arg for a in fn.args.args]
        if got != ["output", "input"] + params:
            raise T.Unsupported("%s signature changed: %s" % (py, got))
        k = N.CanonKernel(fn, int_params=params)
        src, acc = k.lean(lean)
        out.append(src)
        out.append("def %s_accumulates : Bool := %s\n" % (lean, "true" if acc else "false"))
    # (`ndim = len(blk_shape)` is a single-assignment temporary of a never re-assigned name: inlined)
    fn = N.loops_to_comps(N.inline_simple_temps(N.inline_helpers(tree, T.find_function(tree, "array_to_blocks"),
                                                                 keep=_numba_names(tree))))
    txt, names = N.comp_formula(_assign_value(fn, "num_blks", "array_to_blocks"),
                                {"input.shape[-len(blk_shape):]": "i", "blk_shape": "b", "blk_strides": "s"},
                                where="array_to_blocks.num_blks")
    out.append("/-- generated from `array_to_blocks`: num_blks element -/\ndef numBlks (%s : Int) : Int := %s\n" % (
        " ".join(names), txt))
    out.append("end SigpyVerif.Gen\n")
    return "\n".join(out)


def _numba_names(tree):
    """decorated functions are never inlined (inline_helpers skips them anyway); listed for clarity"""
    return {n.name for n in tree.body if isinstance(n, ast.FunctionDef) and n.decorator_list}


def gen_linop_formulas(ctx=None):
    tree = G0._parse("sigpy/linop.py")
    out = [G0.HEADER % "sigpy/linop.py"]
    sites = [
        ("ArrayToBlocks", "num_blks", "a2bNumBlks", {"ishape[-len(blk_shape):]": "i", "blk_shape": "b", "blk_strides": "s"}, None),
        ("BlocksToArray", "num_blks", "b2aNumBlks", {"oshape[-len(blk_shape):]": "i", "blk_shape": "b", "blk_strides": "s"}, None),
        ("Downsample", "oshape", "downsampleLen", {"ishape": "i", "factors": "f", "shift": "s"}, ["i", "s", "f"]),
        ("Upsample", "ishape", "upsampleLen", {"oshape": "i", "factors": "f", "shift": "s"}, ["i", "s", "f"]),
    ]
    for cls, var, lean, iters, order in sites:
        # module-level private helpers of linop.py called from the constructor are inlined (clashing locals such as
        # `D` alpha-renamed), then `D = len(blk_shape)`-style temporaries, so the iterables are spelled one way
        fn = N.loops_to_comps(N.inline_simple_temps(N.inline_helpers(tree, T.find_function(tree, cls + ".__init__"))))
        txt, names = N.comp_formula(_assign_value(fn, var, cls), iters, order=order, where="%s.%s" % (cls, var))
        out.append("/-- generated from `%s.__init__`: element of `%s` -/\ndef %s (%s : Int) : Int := %s\n" % (
            cls, var, lean, " ".join(names), txt))
    out.append("end SigpyVerif.Gen\n")
    return "\n".join(out)


def gen_util_formulas(ctx=None):
    tree = G0._parse("sigpy/util.py")
    out = [G0.HEADER % "sigpy/util.py"]
    fn = N.loops_to_comps(N.inline_helpers(tree, T.find_function(tree, "resize"), keep={"_expand_shapes"}))
    # the defaults are assigned under `if ishift is None:` / `if oshift is None:`, copy_shape unconditionally
    body = N.body_of(fn)
    found = {}
    for s in body:
        if isinstance(s, ast.If) and not s.orelse and len(s.body) == 1 and isinstance(s.body[0], ast.Assign):
            for v in ("ishift", "oshift"):
                if N.u(s.test) == "%s is None" % v and N.u(s.body[0].targets[0]) == v and len(s.body[0].targets) == 1:
                    if v in found:
                        raise T.Unsupported("resize: two defaults for %s" % v)
                    found[v] = s.body[0].value
        if isinstance(s, ast.Assign) and len(s.targets) == 1 and N.u(s.targets[0]) == "copy_shape":
            if "copy_shape" in found:
                raise T.Unsupported("resize: copy_shape assigned twice")
            found["copy_shape"] = s.value
    # nothing else may assign these names (a later re-assignment would make the formula below a dead one)
    for v in ("ishift", "oshift", "copy_shape"):
        if v not in found:
            raise T.Unsupported("resize: definition of %s not found" % v)
        n_assign = sum(1 for n in ast.walk(fn) if isinstance(n, ast.Name) and n.id == v and isinstance(n.ctx, ast.Store))
        if n_assign != 1:
            raise T.Unsupported("resize: %s is assigned %d times" % (v, n_assign))
    io = {"ishape1": "i", "oshape1": "o"}
    sites = [("ishift", "resizeIshiftDefault", io, None), ("oshift", "resizeOshiftDefault", io, ["o", "i"]),
             ("copy_shape", "resizeCopyLen", {"ishape1": "i", "ishift": "si", "oshape1": "o", "oshift": "so"}, None)]
    for var, lean, iters, order in sites:
        txt, names = N.comp_formula(found[var], iters, order=order, where="resize." + var)
        out.append("/-- generated from `util.resize`: element of `%s` -/\ndef %s (%s : Int) : Int := %s\n" % (
            var, lean, " ".join(names), txt))
    out.append("end SigpyVerif.Gen\n")
    return "\n".join(out)


GENERATORS = {"Block": gen_block, "LinopFormulas": gen_linop_formulas, "UtilFormulas": gen_util_formulas}
