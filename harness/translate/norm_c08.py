"""Semantics-preserving normalisation of sigpy/conv.py's AST, applied before the C08 translator passes
(harness/translate/gen_c08.py) match the source.  (Not a generator: the module name does not start with `gen_`.)

Every rewrite below replaces a spelling by one that computes the same values in the same order for every input;
a rewrite whose side conditions cannot be established is simply NOT applied, the construct stays in the tree and the
matchers of gen_c08.py reject it (`Unsupported` -> broken obligation).  Nothing here ever deletes or invents a
statement that has an effect: a semantic change in the source survives normalisation and changes (or breaks) the
generated definition.

Passes (functions `_get_convolve_params`, `_convolve`, `_convolve_data_adjoint`, `_convolve_filter_adjoint` only):

  aliases     `import itertools as it` / `from itertools import product [as p]`        -> `itertools.product`
  call args   keyword <-> positional arguments, resolved against the callee's signature (functions defined in the
              same file; `np.zeros/np.empty(shape, dtype=)`, `signal.convolve/correlate(a, b, mode=)`),
              `np.reshape(X, shape)` -> `X.reshape(shape)`, `range(0, n[, 1])` -> `range(n)`
  helpers     `X = _helper(args)` / `… _helper(args) …` with `_helper` a private module-level function of the same
              file whose body is a tree of if/elif/else over side-effect-free tests with `return <expr>` leaves
              (local single-use temporaries allowed): the body is substituted (arguments must be names / constants /
              `.dtype`/`.shape` attributes; no recursion; no name capture) — fail-closed otherwise
  temps       single-assignment temporaries and loop-invariant hoists (`t = <pure expr>` … uses of `t`) are inlined
              when nothing the expression reads is written between the definition and the uses; an expression that
              creates a fresh object (np.zeros, a scipy call, a view) only into a single use at the same loop depth
  conditions  `not` guards / `any(c)` with both branches -> `all(not c)` with swapped branches; `X = A if c else B`
              -> if/else; constants on the right / names in alphabetical order in comparisons (operator mirrored);
              chains `if v == 'a': … elif v == 'b': …` over distinct string literals sorted by literal; two adjacent
              chains with identical side-effect-free tests merged when the first does not write what the tests read;
              `if mode != 'a': B else: A` -> `if mode == 'a': A else: B`; in the three functions that start with
              `… = _get_convolve_params(…, mode, …)` (which raises unless `mode` is one of the literals of its own
              `if mode == … elif … else: raise` chain) `if mode == 'full': A else: B` -> `… elif mode == 'valid': B`
  loops       `for a, b, c in itertools.product(I1, I2, I3)` / `np.ndindex(n1, n2, n3)` -> the nested loops with the
              same iteration order (iterables `range(<name>)` that the body does not rebind);
              `X = []; for T in I: X.append(E)` [`; X = tuple(X)`] -> the comprehension with the same iteration order;
              `tuple([E for …])` -> `tuple(E for …)`; `if a: (if b: S)` (no else) -> `if a and b: S`
"""
import ast
import copy

from harness.translate import py2lean as T

TARGETS = ("_get_convolve_params", "_convolve", "_convolve_data_adjoint", "_convolve_filter_adjoint")

# names the matchers of gen_c08.py look for: never inlined away
KEEP = {"D", "b", "B", "m", "n", "s", "c_i", "c_o", "p", "data", "filt", "output", "output_kj", "slc", "adjoint_mode",
        "data_shape", "filt_shape", "mode", "strides", "multi_channel"}

# calls whose result is an immutable value depending only on the arguments' values (may be duplicated)
VALUE_CALLS = {"max", "min", "abs", "len", "int", "all", "any", "tuple", "range", "slice"}
# calls without side effects that create a fresh object / one-shot iterator (may be moved, never duplicated)
FRESH_CALLS = {"zip", "list", "reversed", "enumerate", "np.zeros", "np.empty", "signal.convolve", "signal.correlate",
               "itertools.product", "np.ndindex"}
VALUE_ATTRS = {"dtype", "shape", "ndim", "size"}

# canonical argument form of the external calls the matchers read: (positional parameter names, how many stay positional)
EXTERNAL_SIGS = {"np.zeros": (["shape", "dtype"], 1), "np.empty": (["shape", "dtype"], 1),
                 "signal.convolve": (["in1", "in2", "mode"], 2), "signal.correlate": (["in1", "in2", "mode"], 2)}


class _No(Exception):
    """a rewrite is not applicable: leave the construct as it is (the matcher decides)"""


def _dotted(e):
    if isinstance(e, ast.Name):
        return e.id
    if isinstance(e, ast.Attribute) and isinstance(e.value, ast.Name):
        return e.value.id + "." + e.attr
    return None


def _eq(a, b):
    return ast.dump(a) == ast.dump(b)


# ---------------------------------------------------------------------------------------------------------------
#  names read / written
# ---------------------------------------------------------------------------------------------------------------
def _comp_bound(node):
    out = set()
    for n in ast.walk(node):
        if isinstance(n, ast.comprehension):
            for t in ast.walk(n.target):
                if isinstance(t, ast.Name):
                    out.add(t.id)
    return out


def _loads(node):
    """names read in `node` (comprehension variables included: used for conservative disjointness tests)"""
    return {n.id for n in ast.walk(node) if isinstance(n, ast.Name) and isinstance(n.ctx, ast.Load)}


def _base_name(t):
    while isinstance(t, (ast.Subscript, ast.Attribute, ast.Starred)):
        t = t.value
    return t.id if isinstance(t, ast.Name) else None


def _stores(node):
    """names (re)bound or mutated in place by `node` (statement, list of statements or expression): assignment
    targets, bases of subscript / attribute stores, augmented assignments, loop targets, del, with, import, def,
    walrus; `None` in the set = something is written through an expression we cannot name"""
    out = set()
    nodes = node if isinstance(node, list) else [node]
    for root in nodes:
        for n in ast.walk(root):
            if isinstance(n, (ast.Name,)) and isinstance(n.ctx, (ast.Store, ast.Del)):
                out.add(n.id)
            elif isinstance(n, (ast.Subscript, ast.Attribute)) and isinstance(n.ctx, (ast.Store, ast.Del)):
                out.add(_base_name(n))
            elif isinstance(n, ast.AugAssign):
                out.add(_base_name(n.target))
            elif isinstance(n, (ast.FunctionDef, ast.ClassDef, ast.AsyncFunctionDef)):
                out.add(n.name)
            elif isinstance(n, (ast.Import, ast.ImportFrom)):
                for a in n.names:
                    out.add((a.asname or a.name).split(".")[0])
            elif isinstance(n, (ast.Global, ast.Nonlocal)):
                out.update(n.names)
            elif isinstance(n, ast.keyword) and n.arg == "out":
                out.add(_base_name(n.value) if _base_name(n.value) else None)
    return out


def _classify(e):
    """'value': side-effect free, result immutable / may be evaluated any number of times;
       'fresh': side-effect free but creates an object or a one-shot iterator (evaluate exactly once);
       None: not known to be free of side effects"""
    if isinstance(e, (ast.Constant, ast.Name)):
        return "value"
    if isinstance(e, ast.Attribute):
        return "value" if e.attr in VALUE_ATTRS and _classify(e.value) is not None else None
    if isinstance(e, (ast.BinOp,)):
        return "value" if _classify(e.left) and _classify(e.right) else None
    if isinstance(e, ast.UnaryOp):
        return "value" if _classify(e.operand) else None
    if isinstance(e, ast.BoolOp):
        return "value" if all(_classify(v) for v in e.values) else None
    if isinstance(e, ast.Compare):
        return "value" if _classify(e.left) and all(_classify(c) for c in e.comparators) else None
    if isinstance(e, ast.IfExp):
        return "value" if _classify(e.test) and _classify(e.body) and _classify(e.orelse) else None
    if isinstance(e, ast.Tuple):
        return "value" if all(_classify(x) for x in e.elts) else None
    if isinstance(e, ast.List):
        return "fresh" if all(_classify(x) for x in e.elts) else None
    if isinstance(e, ast.Subscript):
        ok = _classify(e.value) and (_classify(e.slice) if not isinstance(e.slice, ast.Slice) else all(
            x is None or _classify(x) for x in (e.slice.lower, e.slice.upper, e.slice.step)))
        return "fresh" if ok else None          # possibly a view of an array
    if isinstance(e, (ast.ListComp, ast.GeneratorExp)):
        ok = _classify(e.elt) and all(_classify(g.iter) and not g.is_async and all(_classify(i) for i in g.ifs)
                                      for g in e.generators)
        return "fresh" if ok else None
    if isinstance(e, ast.Call):
        name = _dotted(e.func)
        if any(isinstance(a, ast.Starred) for a in e.args) or any(k.arg is None for k in e.keywords):
            return None
        sub = [_classify(a) for a in e.args] + [_classify(k.value) for k in e.keywords]
        if name in VALUE_CALLS:
            return "value" if all(sub) else None
        if name in FRESH_CALLS:
            return "fresh" if all(sub) else None
        if isinstance(e.func, ast.Attribute) and e.func.attr == "reshape" and _classify(e.func.value):
            return "fresh" if all(sub) else None
        return None
    return None


# ---------------------------------------------------------------------------------------------------------------
#  substitution
# ---------------------------------------------------------------------------------------------------------------
class _Sub(ast.NodeTransformer):
    def __init__(self, mapping):
        self.mapping = mapping
        self.count = 0

    def visit_Name(self, n):
        if isinstance(n.ctx, ast.Load) and n.id in self.mapping:
            self.count += 1
            return copy.deepcopy(self.mapping[n.id])
        return n


def _subst(node, mapping):
    """replace loads of the names by (copies of) the expressions; returns (new node, number of replacements).
    Refuses (raises _No) when a comprehension inside `node` binds a name the substituted expressions read, or binds
    one of the substituted names (shadowing)."""
    bound = _comp_bound(node) if not isinstance(node, list) else set().union(*[_comp_bound(x) for x in node] or [set()])
    reads = set()
    for k, v in mapping.items():
        reads |= _loads(v)
    if bound & (reads | set(mapping)):
        raise _No("name capture in a comprehension")
    s = _Sub(mapping)
    if isinstance(node, list):
        out = [s.visit(copy.deepcopy(x)) for x in node]
    else:
        out = s.visit(copy.deepcopy(node))
    return out, s.count


# ---------------------------------------------------------------------------------------------------------------
#  pass: import aliases of itertools
# ---------------------------------------------------------------------------------------------------------------
def _itertools_aliases(tree):
    mod_alias, prod_alias = set(), set()
    for s in tree.body:
        if isinstance(s, ast.Import):
            for a in s.names:
                if a.name == "itertools":
                    mod_alias.add(a.asname or "itertools")
        elif isinstance(s, ast.ImportFrom) and s.module == "itertools" and s.level == 0:
            for a in s.names:
                if a.name == "product":
                    prod_alias.add(a.asname or "product")
    return mod_alias, prod_alias


def _is_product(call, aliases, local_names):
    mod_alias, prod_alias = aliases
    f = call.func
    if isinstance(f, ast.Attribute) and f.attr == "product" and isinstance(f.value, ast.Name) \
            and f.value.id in mod_alias and f.value.id not in local_names:
        return True
    return isinstance(f, ast.Name) and f.id in prod_alias and f.id not in local_names


# ---------------------------------------------------------------------------------------------------------------
#  pass: call arguments
# ---------------------------------------------------------------------------------------------------------------
def _bind_args(call, params, defaults):
    """resolve the arguments of `call` against (params, defaults: name -> node); returns name -> node or raises _No"""
    if any(isinstance(a, ast.Starred) for a in call.args) or any(k.arg is None for k in call.keywords):
        raise _No("star arguments")
    if len(call.args) > len(params):
        raise _No("too many positional arguments")
    got = dict(zip(params, call.args))
    for k in call.keywords:
        if k.arg not in params or k.arg in got:
            raise _No("keyword %s" % k.arg)
        got[k.arg] = k.value
    for p_ in params:
        if p_ not in got:
            if p_ not in defaults:
                raise _No("missing argument %s" % p_)
            got[p_] = copy.deepcopy(defaults[p_])
    return got


def _signature(fn):
    a = fn.args
    if a.vararg or a.kwarg or a.kwonlyargs or a.posonlyargs or fn.decorator_list:
        raise _No("signature of %s" % fn.name)
    params = [x.arg for x in a.args]
    defaults = {}
    for p_, d in zip(params[len(params) - len(a.defaults):], a.defaults):
        if not isinstance(d, ast.Constant):
            raise _No("non-constant default")
        defaults[p_] = d
    return params, defaults


class _CallArgs(ast.NodeTransformer):
    def __init__(self, module_fns, local_names):
        self.module_fns, self.local = module_fns, local_names

    def visit_Call(self, n):
        self.generic_visit(n)
        name = _dotted(n.func)
        try:
            if isinstance(n.func, ast.Name) and name in self.module_fns and name not in self.local:
                params, defaults = _signature(self.module_fns[name])
                got = _bind_args(n, params, {})     # defaults are NOT filled in: an omitted argument stays omitted
                if len(got) == len(params):
                    n.args, n.keywords = [got[p_] for p_ in params], []
            elif name in EXTERNAL_SIGS and name.split(".")[0] not in self.local:
                params, npos = EXTERNAL_SIGS[name]
                if any(isinstance(a, ast.Starred) for a in n.args) or any(k.arg is None for k in n.keywords):
                    raise _No("star")
                if len(n.args) > len(params):
                    raise _No("arity")     # e.g. signal.convolve(a, b, mode, method): left for the matcher to reject
                got = dict(zip(params, n.args))
                extra = []
                for k in n.keywords:
                    if k.arg in got:
                        raise _No("duplicate")
                    if k.arg in params:
                        got[k.arg] = k.value
                    else:
                        extra.append(k)     # unknown keyword (order=, method=, …): kept, the matcher rejects it
                if all(p_ in got for p_ in params[:npos]):
                    n.args = [got[p_] for p_ in params[:npos]]
                    n.keywords = [ast.keyword(arg=p_, value=got[p_]) for p_ in params[npos:] if p_ in got] + extra
            elif name == "np.reshape" and "np" not in self.local and len(n.args) == 2 and not n.keywords \
                    and isinstance(n.args[0], ast.Name):
                return ast.copy_location(ast.Call(func=ast.Attribute(value=n.args[0], attr="reshape", ctx=ast.Load()),
                                                  args=[n.args[1]], keywords=[]), n)
            elif name == "range" and "range" not in self.local and not n.keywords and len(n.args) in (2, 3) \
                    and isinstance(n.args[0], ast.Constant) and n.args[0].value == 0 and type(n.args[0].value) is int \
                    and (len(n.args) == 2 or (isinstance(n.args[2], ast.Constant) and n.args[2].value == 1
                                              and type(n.args[2].value) is int)):
                n.args = [n.args[1]]
        except _No:
            pass
        return n


# ---------------------------------------------------------------------------------------------------------------
#  pass: helper inlining
# ---------------------------------------------------------------------------------------------------------------
def _atomic(e):
    return isinstance(e, (ast.Name, ast.Constant)) or (
        isinstance(e, ast.Attribute) and e.attr in VALUE_ATTRS and isinstance(e.value, ast.Name))


def _return_tree(stmts, env_stores):
    """block of a helper -> nested ('leaf', expr | None | Raise) / ('if', test, tree, tree); local temporaries are
    substituted on the way.  Anything but Assign-to-Name / If / Return / Raise / docstring raises _No."""
    if not stmts:
        return ("leaf", None)
    s, rest = stmts[0], stmts[1:]
    if isinstance(s, ast.Expr) and isinstance(s.value, ast.Constant) and isinstance(s.value.value, str):
        return _return_tree(rest, env_stores)
    if isinstance(s, ast.Pass):
        return _return_tree(rest, env_stores)
    if isinstance(s, ast.Return):
        if s.value is None:
            return ("leaf", None)
        if _classify(s.value) is None:
            raise _No("helper returns an expression with possible side effects")
        return ("leaf", s.value)
    if isinstance(s, ast.Raise):
        return ("leaf", s)
    if isinstance(s, ast.Assign) and len(s.targets) == 1 and isinstance(s.targets[0], ast.Name):
        cls = _classify(s.value)
        if cls is None:
            raise _No("helper temporary with possible side effects")
        name = s.targets[0].id
        # the binding holds until `name` is assigned again; later statements see the substituted value
        new_rest, cnt = _subst_until_rebound(rest, name, s.value)
        if cls == "fresh" and cnt > 1:
            raise _No("helper temporary holding a fresh object is used more than once")
        if _stores(rest) & (_loads(s.value) - {name}) and cnt:
            raise _No("helper rebinds what a temporary reads")
        return _return_tree(new_rest, env_stores)
    if isinstance(s, ast.If):
        if _classify(s.test) != "value":
            raise _No("helper test with possible side effects")
        return ("if", s.test, _return_tree(s.body + rest, env_stores), _return_tree(s.orelse + rest, env_stores))
    raise _No("helper statement outside the subset: %s" % type(s).__name__)


def _subst_until_rebound(stmts, name, value):
    """substitute `name := value` in the statements; a statement that rebinds `name` is substituted on its right-hand
    side only and ends the substitution (only the simple top-level case; a rebind nested in an if raises _No)"""
    out, total = [], 0
    for i, st in enumerate(stmts):
        if name in _stores(st):
            if isinstance(st, ast.Assign) and len(st.targets) == 1 and isinstance(st.targets[0], ast.Name) \
                    and st.targets[0].id == name:
                v, c = _subst(st.value, {name: value})
                total += c
                out.append(ast.copy_location(ast.Assign(targets=[copy.deepcopy(st.targets[0])], value=v), st))
                out.extend(copy.deepcopy(stmts[i + 1:]))
                return out, total
            raise _No("temporary rebound inside a compound statement")
        new, c = _subst(st, {name: value})
        total += c
        out.append(new)
    return out, total


def _tree_to_stmts(tree, target, loc):
    if tree[0] == "leaf":
        v = tree[1]
        if isinstance(v, ast.Raise):
            return [copy.deepcopy(v)]
        val = copy.deepcopy(v) if v is not None else ast.Constant(value=None)
        return [ast.copy_location(ast.Assign(targets=[ast.Name(id=target, ctx=ast.Store())], value=val), loc)]
    _, test, a, b = tree
    return [ast.copy_location(ast.If(test=copy.deepcopy(test), body=_tree_to_stmts(a, target, loc),
                                     orelse=_tree_to_stmts(b, target, loc)), loc)]


class _Helpers:
    def __init__(self, tree):
        self.fns = {s.name: s for s in tree.body if isinstance(s, ast.FunctionDef)}
        dup = [s.name for s in tree.body if isinstance(s, ast.FunctionDef)]
        self.dups = {x for x in dup if dup.count(x) > 1}
        # names bound at module level more than once / by something other than `def` are not inlined
        self.other = set()
        for s in tree.body:
            if not isinstance(s, ast.FunctionDef):
                self.other |= {x for x in _stores(s) if x}
        self.cache = {}

    def is_helper(self, name):
        return (name in self.fns and name.startswith("_") and not name.startswith("__") and name not in TARGETS
                and name not in self.dups and name not in self.other)

    def tree_of(self, name, stack):
        """(params, defaults, return-tree) of the helper with its own helper calls inlined; _No on recursion"""
        if name in stack:
            raise _No("recursive helper %s" % name)
        if name in self.cache:
            return self.cache[name]
        fn = copy.deepcopy(self.fns[name])
        params, defaults = _signature(fn)
        for n in ast.walk(fn):
            if isinstance(n, (ast.Lambda, ast.FunctionDef, ast.ClassDef, ast.Yield, ast.YieldFrom, ast.Await,
                              ast.Global, ast.Nonlocal, ast.NamedExpr)) and n is not fn:
                raise _No("helper %s: nested scope / generator / walrus" % name)
        self.inline_in(fn, stack | {name})
        tr = _return_tree(fn.body, None)
        self.cache[name] = (params, defaults, tr, fn)
        return self.cache[name]

    def _instantiate(self, call, stack, caller_locals):
        name = call.func.id
        params, defaults, tr, fn = self.tree_of(name, stack)
        got = _bind_args(call, params, defaults)
        if not all(_atomic(v) for v in got.values()):
            raise _No("non-atomic argument of %s" % name)
        # free names of the helper body must mean the same thing in the caller (module globals / builtins)
        body_loads = set()
        for st in fn.body:
            body_loads |= _loads(st)
        local_in_helper = set(params) | {x for x in _stores(fn.body) if x} | _comp_bound(fn)
        free = body_loads - local_in_helper
        if free & caller_locals:
            raise _No("helper %s reads a global name that is a local of the caller" % name)

        def inst(t):
            if t[0] == "leaf":
                if t[1] is None:
                    return t
                v, _ = _subst(t[1], got)
                return ("leaf", v)
            test, _ = _subst(t[1], got)
            return ("if", test, inst(t[2]), inst(t[3]))
        return inst(tr)

    def inline_in(self, fn, stack):
        """inline helper calls in the body of `fn` (in place)"""
        caller_locals = {a.arg for a in fn.args.args} | {x for x in _stores(fn.body) if x} | _comp_bound(fn)

        def block(stmts):
            out = []
            for s in stmts:
                for fld in ("body", "orelse", "finalbody"):
                    if isinstance(getattr(s, fld, None), list) and not isinstance(s, (ast.FunctionDef, ast.ClassDef)):
                        setattr(s, fld, block(getattr(s, fld)))
                # statement form: Name = _helper(...)
                if isinstance(s, ast.Assign) and len(s.targets) == 1 and isinstance(s.targets[0], ast.Name) \
                        and isinstance(s.value, ast.Call) and isinstance(s.value.func, ast.Name) \
                        and self.is_helper(s.value.func.id) and s.value.func.id not in caller_locals:
                    try:
                        tr = self._instantiate(s.value, stack, caller_locals)
                        out.extend(_tree_to_stmts(tr, s.targets[0].id, s))
                        continue
                    except _No:
                        pass
                # expression form: helper = single `return <expr>`
                out.append(_ExprInline(self, stack, caller_locals).visit(s))
            return out
        fn.body = block(fn.body)


class _ExprInline(ast.NodeTransformer):
    def __init__(self, helpers, stack, caller_locals):
        self.h, self.stack, self.local = helpers, stack, caller_locals

    def visit_FunctionDef(self, n):
        return n

    def visit_Lambda(self, n):
        return n

    def visit_Call(self, n):
        self.generic_visit(n)
        if isinstance(n.func, ast.Name) and self.h.is_helper(n.func.id) and n.func.id not in self.local:
            try:
                tr = self.h._instantiate(n, self.stack, self.local)
                if tr[0] == "leaf" and tr[1] is not None and not isinstance(tr[1], ast.Raise):
                    return ast.copy_location(tr[1], n)
            except _No:
                pass
        return n


# ---------------------------------------------------------------------------------------------------------------
#  pass: temporaries
# ---------------------------------------------------------------------------------------------------------------
def _blocks(fn):
    """every statement list of the function with the number of loops enclosing it"""
    out = []

    def rec(stmts, depth):
        out.append((stmts, depth))
        for s in stmts:
            if isinstance(s, (ast.FunctionDef, ast.ClassDef)):
                continue
            d2 = depth + (1 if isinstance(s, (ast.For, ast.While)) else 0)
            for fld in ("body", "orelse", "finalbody"):
                v = getattr(s, fld, None)
                if isinstance(v, list) and v and isinstance(v[0], ast.stmt):
                    rec(v, d2 if fld == "body" else depth)
            for h in getattr(s, "handlers", []):
                rec(h.body, depth)
    rec(fn.body, 0)
    return out


def _uses(node, name):
    return [n for n in ast.walk(node) if isinstance(n, ast.Name) and n.id == name and isinstance(n.ctx, ast.Load)]


def _in_loop_or_comp(stmt, name):
    """is some load of `name` in `stmt` inside a loop / comprehension / lambda nested in stmt?"""
    def rec(n, inside):
        if isinstance(n, ast.Name) and n.id == name and isinstance(n.ctx, ast.Load):
            return inside
        for c in ast.iter_child_nodes(n):
            ins = inside or isinstance(n, (ast.For, ast.While, ast.ListComp, ast.GeneratorExp, ast.SetComp, ast.DictComp,
                                           ast.Lambda))
            if rec(c, ins):
                return True
        return False
    return rec(stmt, False)


def _inline_temps(fn):
    params = {a.arg for a in fn.args.args}
    for n in ast.walk(fn):
        if isinstance(n, (ast.Lambda, ast.FunctionDef, ast.ClassDef, ast.Global, ast.Nonlocal, ast.NamedExpr,
                          ast.Try, ast.With, ast.While)) and n is not fn:
            return      # keep it simple: no temporaries are inlined in functions with these constructs
    changed = True
    while changed:
        changed = False
        all_stores = []
        for n in ast.walk(fn):
            if isinstance(n, ast.stmt) and not isinstance(n, (ast.If, ast.For)) and n is not fn:
                all_stores.extend(x for x in _stores(n))
            elif isinstance(n, ast.For):
                all_stores.extend(x for x in _stores(n.target))
        for stmts, depth in _blocks(fn):
            for i, s in enumerate(stmts):
                if not (isinstance(s, ast.Assign) and len(s.targets) == 1 and isinstance(s.targets[0], ast.Name)):
                    continue
                name = s.targets[0].id
                if name in KEEP or name in params or all_stores.count(name) != 1 or name in _comp_bound(fn):
                    continue
                cls = _classify(s.value)
                if cls is None:
                    continue
                rest = stmts[i + 1:]
                total = len(_uses(fn, name))
                here = sum(len(_uses(x, name)) for x in rest)
                if total != here or name in _loads(s.value):
                    continue        # used before / outside the block that follows the definition
                reads = _loads(s.value)
                if (_stores(rest) & reads) or None in _stores(rest):
                    continue        # something the expression reads is written after the definition
                if depth > 0:
                    # definition inside a loop body: the statements before it run again before the next definition, and
                    # the definition itself is re-executed, so only the rest of the body matters (checked above)
                    pass
                if cls == "fresh" and (here > 1 or any(_in_loop_or_comp(x, name) for x in rest)):
                    continue
                try:
                    new_rest, cnt = _subst(rest, {name: s.value})
                except _No:
                    continue
                stmts[i:] = new_rest
                changed = True
                break
            if changed:
                break


# ---------------------------------------------------------------------------------------------------------------
#  pass: conditions
# ---------------------------------------------------------------------------------------------------------------
_MIRROR = {ast.Lt: ast.Gt, ast.Gt: ast.Lt, ast.LtE: ast.GtE, ast.GtE: ast.LtE, ast.Eq: ast.Eq, ast.NotEq: ast.NotEq}
_NEGATE = {ast.Lt: ast.GtE, ast.GtE: ast.Lt, ast.Gt: ast.LtE, ast.LtE: ast.Gt, ast.Eq: ast.NotEq, ast.NotEq: ast.Eq}


class _Compares(ast.NodeTransformer):
    """`'full' == mode` -> `mode == 'full'`; `n_d <= m_d` -> `m_d >= n_d` (two names: alphabetical order)"""

    def visit_Compare(self, n):
        self.generic_visit(n)
        if len(n.ops) == 1 and type(n.ops[0]) in _MIRROR:
            l, r = n.left, n.comparators[0]
            flip = (isinstance(l, ast.Constant) and isinstance(r, ast.Name)) or (
                isinstance(l, ast.Name) and isinstance(r, ast.Name) and r.id < l.id)
            if flip:
                n.left, n.comparators, n.ops = r, [l], [_MIRROR[type(n.ops[0])]()]
        return n


def _negated(e):
    """an expression equivalent to `not e` for the int / bool comparisons of the subset"""
    if isinstance(e, ast.UnaryOp) and isinstance(e.op, ast.Not):
        return e.operand
    if isinstance(e, ast.Compare) and len(e.ops) == 1 and type(e.ops[0]) in _NEGATE \
            and all(isinstance(x, (ast.Name, ast.Constant)) for x in [e.left] + e.comparators) \
            and not any(isinstance(x, ast.Constant) and isinstance(x.value, float) for x in [e.left] + e.comparators):
        # names compared here are ints (lengths) or strings: total orders, so `not a < b` is `a >= b`
        if type(e.ops[0]) in (ast.Eq, ast.NotEq) or all(isinstance(x, ast.Name) or type(getattr(x, "value", None)) is int
                                                        for x in [e.left] + e.comparators):
            return ast.copy_location(ast.Compare(left=e.left, ops=[_NEGATE[type(e.ops[0])]()], comparators=e.comparators), e)
    return ast.copy_location(ast.UnaryOp(op=ast.Not(), operand=e), e)


def _quantifier(e):
    """`any(<genexp/listcomp>)` / `all(…)` -> (name, comprehension) or None"""
    if isinstance(e, ast.Call) and isinstance(e.func, ast.Name) and e.func.id in ("any", "all") and len(e.args) == 1 \
            and not e.keywords and isinstance(e.args[0], (ast.GeneratorExp, ast.ListComp)):
        return e.func.id, e.args[0]
    return None


def _norm_if_tests(fn, local):
    """if/else with both branches: `not c` -> swap; `any(c …)` -> `all(not c …)` with swapped branches.
    (`all(x for …)` of an empty sequence is True and `any` False: De Morgan holds for every length.)"""
    for n in ast.walk(fn):
        if isinstance(n, ast.IfExp):
            continue
        if not (isinstance(n, ast.If) and n.body and n.orelse):
            continue
        for _ in range(4):
            t = n.test
            if isinstance(t, ast.UnaryOp) and isinstance(t.op, ast.Not) and _classify(t.operand):
                n.test, n.body, n.orelse = t.operand, n.orelse, n.body
                continue
            if isinstance(t, ast.Compare) and len(t.ops) == 1 and isinstance(t.ops[0], ast.NotEq) \
                    and isinstance(t.left, ast.Name) and isinstance(t.comparators[0], ast.Constant) \
                    and isinstance(t.comparators[0].value, str):
                t.ops = [ast.Eq()]
                n.body, n.orelse = n.orelse, n.body
                continue
            q = _quantifier(t)
            if q and q[0] == "any" and "any" not in local and "all" not in local and _classify(t):
                comp = q[1]
                comp.elt = _negated(comp.elt)
                t.func = ast.copy_location(ast.Name(id="all", ctx=ast.Load()), t.func)
                n.body, n.orelse = n.orelse, n.body
                continue
            break
        # `if c: A else: (if …)` produced by a swap is spelled `elif` by the AST already (orelse = [If])


def _ifexp_assign(fn):
    """`X = A if c else B` -> `if c: X = A else: X = B` (c side-effect free)"""
    for stmts, _ in _blocks(fn):
        for i, s in enumerate(stmts):
            if isinstance(s, ast.Assign) and len(s.targets) == 1 and isinstance(s.targets[0], ast.Name) \
                    and isinstance(s.value, ast.IfExp) and _classify(s.value.test) \
                    and s.targets[0].id not in _loads(s.value.test):
                mk = lambda v: ast.copy_location(ast.Assign(targets=[copy.deepcopy(s.targets[0])], value=v), s)
                stmts[i] = ast.copy_location(ast.If(test=s.value.test, body=[mk(s.value.body)], orelse=[mk(s.value.orelse)]), s)


def _chain(s):
    """if/elif/…/else -> ([(test, body)], else body, [the If nodes])"""
    arms, nodes = [], []
    while True:
        arms.append((s.test, s.body))
        nodes.append(s)
        if len(s.orelse) == 1 and isinstance(s.orelse[0], ast.If):
            s = s.orelse[0]
        else:
            return arms, s.orelse, nodes


def _build_chain(arms, orelse, loc):
    node = None
    for test, body in reversed(arms):
        node = ast.copy_location(ast.If(test=test, body=body, orelse=orelse if node is None else [node]), loc)
    return node


def _str_eq_test(t):
    if isinstance(t, ast.Compare) and len(t.ops) == 1 and isinstance(t.ops[0], ast.Eq) and isinstance(t.left, ast.Name) \
            and isinstance(t.comparators[0], ast.Constant) and isinstance(t.comparators[0].value, str):
        return t.left.id, t.comparators[0].value
    return None


def _norm_chains(fn):
    for stmts, _ in _blocks(fn):
        i = 0
        while i < len(stmts):
            s = stmts[i]
            if not isinstance(s, ast.If):
                i += 1
                continue
            arms, orelse, _ = _chain(s)
            # (1) exclusive string tests on one variable: sort the arms by literal
            keys = [_str_eq_test(t) for t, _ in arms]
            if len(arms) > 1 and all(keys) and len({k[0] for k in keys}) == 1 and len({k[1] for k in keys}) == len(keys):
                order = sorted(range(len(arms)), key=lambda j: keys[j][1])
                if order != list(range(len(arms))):
                    arms = [arms[j] for j in order]
                    stmts[i] = s = _build_chain(arms, orelse, s)
            # (2) merge with a following chain that has the same tests
            if i + 1 < len(stmts) and isinstance(stmts[i + 1], ast.If):
                arms2, orelse2, _ = _chain(stmts[i + 1])
                keys2 = [_str_eq_test(t) for t, _ in arms2]
                if all(keys2) and len({k[0] for k in keys2}) == 1 and len({k[1] for k in keys2}) == len(keys2) and len(arms2) > 1:
                    arms2 = [arms2[j] for j in sorted(range(len(arms2)), key=lambda j: keys2[j][1])]
                same = len(arms) == len(arms2) and all(_eq(a[0], b[0]) for a, b in zip(arms, arms2)) \
                    and all(_classify(a[0]) == "value" for a in arms)
                if same:
                    written = set()
                    for _, bdy in arms:
                        written |= _stores(bdy)
                    written |= _stores(orelse) if orelse else set()
                    read = set()
                    for t, _ in arms:
                        read |= _loads(t)
                    if not (written & read) and None not in written:
                        merged = [(a[0], a[1] + b[1]) for a, b in zip(arms, arms2)]
                        stmts[i] = _build_chain(merged, list(orelse) + list(orelse2), s)
                        del stmts[i + 1]
                        continue        # try to merge the next one, too
            i += 1


# ---------------------------------------------------------------------------------------------------------------
#  pass: `else` of a mode chain -> `elif mode == '<the one remaining mode>'`
# ---------------------------------------------------------------------------------------------------------------
def _mode_domain(fn):
    """`_get_convolve_params` returns normally only for the modes of its `if mode == 'a': … elif mode == 'b': … else:
    raise …` chain: (position of the parameter `mode`, {'a', 'b'}) — or None when that cannot be read off"""
    params = [a.arg for a in fn.args.args]
    if "mode" not in params or "mode" in _stores(fn.body):
        return None
    for n in ast.walk(fn):
        if isinstance(n, (ast.Lambda, ast.FunctionDef, ast.ClassDef, ast.Yield, ast.YieldFrom)) and n is not fn:
            return None
    for i, s in enumerate(fn.body):
        k = _str_eq_test(s.test) if isinstance(s, ast.If) else None
        if k and k[0] == "mode":
            arms, orelse, _ = _chain(s)
            keys = [_str_eq_test(t) for t, _ in arms]
            if not all(keys) or any(x[0] != "mode" for x in keys) or not (orelse and isinstance(orelse[0], ast.Raise)):
                return None
            after = fn.body[i + 1:]
            for n in ast.walk(fn):
                if isinstance(n, ast.Return) and not any(n is x for x in after):
                    return None     # a return that bypasses the chain
            return params.index("mode"), {x[1] for x in keys}
    return None


def _close_mode_chains(fn, domain, local):
    """In a function whose first statement is `… = _get_convolve_params(…, mode, …)` with its own, never rebound
    parameter `mode`, every later point is reached only with `mode` in the callee's admitted set; there an
    `if mode == 'a': A else: B` is `if mode == 'a': A elif mode == 'b': B` when 'b' is the one remaining mode."""
    if domain is None:
        return
    idx, modes = domain
    body = [s for s in fn.body if not (isinstance(s, ast.Expr) and isinstance(s.value, ast.Constant))]
    if not body or "mode" not in {a.arg for a in fn.args.args} or "mode" in _stores(fn.body):
        return
    first = body[0]
    if not (isinstance(first, ast.Assign) and isinstance(first.value, ast.Call) and isinstance(first.value.func, ast.Name)
            and first.value.func.id == "_get_convolve_params" and "_get_convolve_params" not in local
            and not first.value.keywords and len(first.value.args) > idx
            and not any(isinstance(a, ast.Starred) for a in first.value.args)
            and isinstance(first.value.args[idx], ast.Name) and first.value.args[idx].id == "mode"):
        return
    inner = set()
    for n in ast.walk(fn):
        if not isinstance(n, ast.If) or id(n) in inner:
            continue
        seen, cur = [], n
        while True:
            k = _str_eq_test(cur.test)
            if not (k and k[0] == "mode"):
                seen = None
                break
            seen.append(k[1])
            nxt = cur.orelse[0] if len(cur.orelse) == 1 and isinstance(cur.orelse[0], ast.If) else None
            kn = _str_eq_test(nxt.test) if nxt is not None else None
            if kn and kn[0] == "mode":
                inner.add(id(nxt))
                cur = nxt
                continue
            break
        if not seen or len(set(seen)) != len(seen) or not set(seen) < modes or len(modes - set(seen)) != 1:
            continue
        if not cur.orelse or isinstance(cur.orelse[0], ast.Raise):
            continue
        missing = (modes - set(seen)).pop()
        test = ast.Compare(left=ast.Name(id="mode", ctx=ast.Load()), ops=[ast.Eq()], comparators=[ast.Constant(value=missing)])
        new_if = ast.copy_location(ast.If(test=test, body=cur.orelse, orelse=[]), cur.orelse[0])
        inner.add(id(new_if))
        cur.orelse = [new_if]


# ---------------------------------------------------------------------------------------------------------------
#  pass: loops
# ---------------------------------------------------------------------------------------------------------------
def _range_of_name(e):
    return isinstance(e, ast.Call) and isinstance(e.func, ast.Name) and e.func.id == "range" and len(e.args) == 1 \
        and not e.keywords and isinstance(e.args[0], ast.Name)


def _norm_loops(fn, aliases, local):
    for stmts, _ in _blocks(fn):
        for i, s in enumerate(stmts):
            if not (isinstance(s, ast.For) and not s.orelse and isinstance(s.target, ast.Tuple)
                    and all(isinstance(t, ast.Name) for t in s.target.elts) and isinstance(s.iter, ast.Call)
                    and not s.iter.keywords):
                continue
            it = s.iter
            if _is_product(it, aliases, local):
                iters = it.args
            elif _dotted(it.func) == "np.ndindex" and "np" not in local and all(isinstance(a, ast.Name) for a in it.args):
                # np.ndindex(n1, n2, …) yields the index tuples in C order = the nested ranges
                iters = [ast.copy_location(ast.Call(func=ast.Name(id="range", ctx=ast.Load()), args=[a], keywords=[]), a)
                         for a in it.args]
            else:
                continue
            names = [t.id for t in s.target.elts]
            if len(iters) != len(names) or len(set(names)) != len(names) or "range" in local \
                    or not all(_range_of_name(x) for x in iters):
                continue
            bounds = {x.args[0].id for x in iters}
            # the product evaluates its iterables once, the nested loops re-evaluate the inner ranges: the same as long as
            # neither the body nor the loop variables rebind the bounds
            if (_stores(s.body) | set(names)) & bounds:
                continue
            if any(isinstance(x, (ast.Break, ast.Continue)) for x in ast.walk(s)):
                continue        # `break` would leave only the innermost of the nested loops
            node = None
            for nm_, rg in reversed(list(zip(names, iters))):
                node = ast.copy_location(ast.For(target=ast.Name(id=nm_, ctx=ast.Store()), iter=rg,
                                                 body=s.body if node is None else [node], orelse=[]), s)
            stmts[i] = node


def _scoped_count(node, names):
    """(loads, stores) of the names in `node`, not descending into comprehensions that bind one of them themselves"""
    loads = stores = 0
    stack = [node]
    while stack:
        n = stack.pop()
        if isinstance(n, (ast.ListComp, ast.GeneratorExp, ast.SetComp, ast.DictComp)) and (_comp_bound(n) & set(names)):
            if any(isinstance(x, ast.Name) and x.id in names for g in n.generators[:1] for x in ast.walk(g.iter)):
                loads += 1000       # the outermost iterable is evaluated in the enclosing scope: treat as a foreign use
            continue
        if isinstance(n, ast.Name) and n.id in names:
            if isinstance(n.ctx, ast.Load):
                loads += 1
            else:
                stores += 1
        stack.extend(ast.iter_child_nodes(n))
    return loads, stores


def _append_loops(fn):
    """`X = []; for T in I: X.append(E)` -> `X = [E for T in I]` (same iteration order; E, I side-effect free and not
    reading X; the loop variables are not used after the loop), and `X = [comp]; X = tuple(X)` -> `X = tuple(gen)`;
    `if a: (if b: S)` without else branches -> `if a and b: S`"""
    for stmts, _ in _blocks(fn):
        i = 0
        while i < len(stmts):
            s = stmts[i]
            nxt = stmts[i + 1] if i + 1 < len(stmts) else None
            if isinstance(s, ast.Assign) and len(s.targets) == 1 and isinstance(s.targets[0], ast.Name) \
                    and isinstance(s.value, ast.List) and not s.value.elts and isinstance(nxt, ast.For) and not nxt.orelse \
                    and len(nxt.body) == 1 and isinstance(nxt.body[0], ast.Expr):
                x, c = s.targets[0].id, nxt.body[0].value
                tnames = [t.id for t in ast.walk(nxt.target) if isinstance(t, ast.Name)]
                ok = (isinstance(c, ast.Call) and isinstance(c.func, ast.Attribute) and c.func.attr == "append"
                      and isinstance(c.func.value, ast.Name) and c.func.value.id == x and len(c.args) == 1 and not c.keywords
                      and not isinstance(c.args[0], ast.Starred)
                      and isinstance(nxt.target, (ast.Name, ast.Tuple)) and all(isinstance(t, (ast.Name, ast.Tuple)) for t in ast.walk(nxt.target) if not isinstance(t, ast.expr_context))
                      and _classify(c.args[0]) and _classify(nxt.iter)
                      and x not in _loads(c.args[0]) | _loads(nxt.iter) and x not in tnames
                      and not (set(tnames) & KEEP))
                if ok:
                    inside = _scoped_count(nxt, tnames)
                    total = _scoped_count(fn, tnames)
                    # the loop variables must be private to this loop (a comprehension does not leak them): no read or
                    # write of them elsewhere in the function, comprehensions that bind the same names aside
                    if inside == total and inside[1] == len(tnames):
                        tgt = copy.deepcopy(nxt.target)
                        comp = ast.ListComp(elt=c.args[0], generators=[ast.comprehension(target=tgt, iter=nxt.iter, ifs=[], is_async=0)])
                        stmts[i:i + 2] = [ast.copy_location(ast.Assign(targets=[s.targets[0]], value=ast.copy_location(comp, nxt)), s)]
                        continue
            if isinstance(s, ast.Assign) and len(s.targets) == 1 and isinstance(s.targets[0], ast.Name) \
                    and isinstance(s.value, ast.ListComp) and _classify(s.value) \
                    and isinstance(nxt, ast.Assign) and len(nxt.targets) == 1 and isinstance(nxt.targets[0], ast.Name) \
                    and nxt.targets[0].id == s.targets[0].id and isinstance(nxt.value, ast.Call) \
                    and isinstance(nxt.value.func, ast.Name) and nxt.value.func.id == "tuple" and not nxt.value.keywords \
                    and len(nxt.value.args) == 1 and isinstance(nxt.value.args[0], ast.Name) \
                    and nxt.value.args[0].id == s.targets[0].id and s.targets[0].id not in _loads(s.value):
                gen = ast.copy_location(ast.GeneratorExp(elt=s.value.elt, generators=s.value.generators), s.value)
                nxt.value.args = [gen]
                del stmts[i]
                continue
            if isinstance(s, ast.If) and not s.orelse and len(s.body) == 1 and isinstance(s.body[0], ast.If) \
                    and not s.body[0].orelse:
                inner = s.body[0]
                s.test = ast.copy_location(ast.BoolOp(op=ast.And(), values=[s.test, inner.test]), s.test)
                s.body = inner.body
                continue
            i += 1


class _TupleOfList(ast.NodeTransformer):
    """`tuple([E for …])` -> `tuple(E for …)` (side-effect free comprehension: the same elements in the same order)"""

    def visit_Call(self, n):
        self.generic_visit(n)
        if isinstance(n.func, ast.Name) and n.func.id == "tuple" and len(n.args) == 1 and not n.keywords \
                and isinstance(n.args[0], ast.ListComp) and _classify(n.args[0]):
            n.args = [ast.copy_location(ast.GeneratorExp(elt=n.args[0].elt, generators=n.args[0].generators), n.args[0])]
        return n


# ---------------------------------------------------------------------------------------------------------------
def normalize(tree):
    """normalise the functions in TARGETS of a parsed sigpy/conv.py (a deep copy is returned)"""
    tree = copy.deepcopy(tree)
    aliases = _itertools_aliases(tree)
    helpers = _Helpers(tree)
    module_fns = {k: v for k, v in helpers.fns.items() if k not in helpers.dups and k not in helpers.other}
    todo = {fn.name: fn for fn in tree.body if isinstance(fn, ast.FunctionDef) and fn.name in TARGETS
            and fn.name not in helpers.dups}
    domain = None
    for name in TARGETS:        # `_get_convolve_params` first: its mode chain tells which modes the callers can see
        fn = todo.get(name)
        if fn is None:
            continue
        helpers.inline_in(fn, frozenset({fn.name}))
        for _ in range(4):      # a rewrite can enable another one (merged arms contain chains, …): run to a fixed point
            before = ast.dump(fn)
            local = {a.arg for a in fn.args.args} | {x for x in _stores(fn.body) if x} | _comp_bound(fn)
            _CallArgs(module_fns, local).visit(fn)
            _ifexp_assign(fn)
            _append_loops(fn)
            if "tuple" not in local:
                _TupleOfList().visit(fn)
            _inline_temps(fn)
            _Compares().visit(fn)
            _norm_if_tests(fn, local)
            if name != "_get_convolve_params":
                _close_mode_chains(fn, domain, local)
            _norm_chains(fn)
            _norm_loops(fn, aliases, local)
            if ast.dump(fn) == before:
                break
        if name == "_get_convolve_params":
            domain = _mode_domain(fn)
    ast.fix_missing_locations(tree)
    return tree
