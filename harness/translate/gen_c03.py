"""Translator plugin for C03: the integer formulas of `_hstack_params` / `_vstack_params` and of the axis
normalisation in `Hstack/Vstack/Diag._apply` (T2).  The loop structure itself (fold over `shapes[1:]` with state
`(shape, idx, indices)`) is modelled by hand in Model/C03.lean and tied by the correspondence check; what is
extracted here are the expressions a maintainer is likely to touch: how the axis is normalised before the
comparison `i == axis`, what is added to the shape entry and to the running index, what is appended to
`indices` and whether it is appended before the index is advanced, and the off-axis rejection test."""
import ast
import copy

from harness.translate import py2lean as T
from harness.translate.gen import HEADER, _parse


class _Flatten(ast.NodeTransformer):
    """`name[i]` -> `name_i`, `self.axis` -> `axis` so that T2 sees plain int variables"""

    def visit_Subscript(self, n):
        if isinstance(n.value, ast.Name) and isinstance(n.slice, ast.Name):
            return ast.copy_location(ast.Name(id="%s_%s" % (n.value.id, n.slice.id), ctx=ast.Load()), n)
        return self.generic_visit(n)

    def visit_Attribute(self, n):
        if isinstance(n.value, ast.Name) and n.value.id == "self":
            return ast.copy_location(ast.Name(id=n.attr, ctx=ast.Load()), n)
        return self.generic_visit(n)


def _flat(node):
    return _Flatten().visit(copy.deepcopy(node))


def _params(fn, acc, prefix, out):
    """fn = `_hstack_params` / `_vstack_params`; acc = name of the accumulated shape list"""
    # 1. axis normalisation at function level (after the `axis is None` early return): `axis = <expr>`
    norm = None
    for st in fn.body:
        if isinstance(st, ast.Assign) and len(st.targets) == 1 and isinstance(st.targets[0], ast.Name) \
                and st.targets[0].id == "axis":
            if norm is not None:
                raise T.Unsupported("%s: axis assigned twice" % fn.name)
            norm = st.value
        if isinstance(st, ast.AugAssign) and isinstance(st.target, ast.Name) and st.target.id == "axis":
            if norm is not None:
                raise T.Unsupported("%s: axis assigned twice" % fn.name)
            norm = ast.BinOp(left=ast.Name(id="axis", ctx=ast.Load()), op=st.op, right=st.value)
    f = "axis" if norm is None else T.formula(norm, ["axis", "ndim"])
    out.append("/-- generated from `%s`: the axis the loop compares `i` with%s -/\ndef %sAxis (axis ndim : Int) : Int := %s\n" % (
        fn.name, "" if norm is not None else " (NOT normalised in the source)", prefix, f))
    # 2. the loops
    outer = [s for s in fn.body if isinstance(s, ast.For)]
    if len(outer) != 1 or not (isinstance(outer[0].target, ast.Name) and outer[0].target.id == "shape"):
        raise T.Unsupported("%s: outer loop form" % fn.name)
    it = outer[0].iter
    if not (isinstance(it, ast.Subscript) and isinstance(it.value, ast.Name) and it.value.id == "shapes"
            and isinstance(it.slice, ast.Slice) and isinstance(it.slice.lower, ast.Constant) and it.slice.lower.value == 1
            and it.slice.upper is None and it.slice.step is None):
        raise T.Unsupported("%s: outer loop is not over shapes[1:]" % fn.name)
    inner = [s for s in outer[0].body if isinstance(s, ast.For)]
    if len(inner) != 1 or not (isinstance(inner[0].target, ast.Name) and inner[0].target.id == "i"):
        raise T.Unsupported("%s: inner loop form" % fn.name)
    rng = inner[0].iter
    if not (isinstance(rng, ast.Call) and isinstance(rng.func, ast.Name) and rng.func.id == "range" and len(rng.args) == 1
            and isinstance(rng.args[0], ast.Name) and rng.args[0].id == "ndim"):
        raise T.Unsupported("%s: inner loop is not range(ndim)" % fn.name)
    if len(inner[0].body) != 1 or not isinstance(inner[0].body[0], ast.If):
        raise T.Unsupported("%s: inner loop body form" % fn.name)
    br = inner[0].body[0]
    ex = T.Expr({"i": T.INT, "axis": T.INT, "ndim": T.INT})
    out.append("/-- generated from `%s`: the on-axis test -/\ndef %sOnAxis (i axis ndim : Int) : Bool := decide %s\n" % (
        fn.name, prefix, ex.cond(_flat(br.test))))
    shape_step = idx_step = appended = None
    order = []
    for st in br.body:
        if isinstance(st, ast.AugAssign) and isinstance(st.target, ast.Subscript) and isinstance(st.target.value, ast.Name) \
                and st.target.value.id == acc:
            e = ast.BinOp(left=_flat(st.target), op=st.op, right=_flat(st.value))
            shape_step = T.formula(e, [acc + "_i", "shape_i", "idx"])
            order.append("shape")
        elif isinstance(st, ast.AugAssign) and isinstance(st.target, ast.Name) and st.target.id == "idx":
            e = ast.BinOp(left=ast.Name(id="idx", ctx=ast.Load()), op=st.op, right=_flat(st.value))
            idx_step = T.formula(e, [acc + "_i", "shape_i", "idx"])
            order.append("idx")
        elif isinstance(st, ast.Expr) and isinstance(st.value, ast.Call) and isinstance(st.value.func, ast.Attribute) \
                and st.value.func.attr == "append" and isinstance(st.value.func.value, ast.Name) \
                and st.value.func.value.id == "indices" and len(st.value.args) == 1:
            appended = T.formula(_flat(st.value.args[0]), [acc + "_i", "shape_i", "idx"])
            order.append("append")
        else:
            raise T.Unsupported("%s: statement in the on-axis branch: %s" % (fn.name, ast.dump(st)[:80]))
    if None in (shape_step, idx_step, appended) or len(order) != 3:
        raise T.Unsupported("%s: on-axis branch must update the shape entry, append to indices and advance idx" % fn.name)
    args = "(%s_i shape_i idx : Int)" % acc
    out.append("/-- generated from `%s`: new shape entry on the axis -/\ndef %sShapeStep %s : Int := %s\n" % (fn.name, prefix, args, shape_step))
    out.append("/-- generated from `%s`: new running index -/\ndef %sIdxStep %s : Int := %s\n" % (fn.name, prefix, args, idx_step))
    out.append("/-- generated from `%s`: what is appended to `indices` -/\ndef %sAppended %s : Int := %s\n" % (fn.name, prefix, args, appended))
    out.append("/-- generated from `%s`: `indices.append` happens before `idx` is advanced -/\ndef %sAppendBeforeAdvance : Bool := %s\n" % (
        fn.name, prefix, "true" if order.index("append") < order.index("idx") else "false"))
    # off-axis test: `elif shape[i] != acc[i]: raise`
    if len(br.orelse) != 1 or not isinstance(br.orelse[0], ast.If) or br.orelse[0].orelse \
            or not all(isinstance(s, ast.Raise) for s in br.orelse[0].body):
        raise T.Unsupported("%s: off-axis branch form" % fn.name)
    ex2 = T.Expr({"i": T.INT, "axis": T.INT, "ndim": T.INT, acc + "_i": T.INT, "shape_i": T.INT})
    out.append("/-- generated from `%s`: the off-axis rejection test -/\ndef %sRejects (i axis ndim %s_i shape_i : Int) : Bool := decide %s\n" % (
        fn.name, prefix, acc, ex2.cond(_flat(br.orelse[0].test))))
    # rank test
    first = outer[0].body[0]
    if not (isinstance(first, ast.If) and all(isinstance(s, ast.Raise) for s in first.body) and not first.orelse):
        raise T.Unsupported("%s: rank test form" % fn.name)


def _apply_axis(tree, cls, attr, lean, out):
    fn = T.find_function(tree, cls + "._apply")
    found = []
    for n in ast.walk(fn):
        if isinstance(n, ast.Assign) and len(n.targets) == 1 and isinstance(n.targets[0], ast.Name) and n.targets[0].id == "axis":
            names = {m.attr for m in ast.walk(n.value) if isinstance(m, ast.Attribute) and isinstance(m.value, ast.Name) and m.value.id == "self"}
            if names == {attr}:
                found.append(n.value)
    if len(found) != 1:
        raise T.Unsupported("%s._apply: expected exactly one `axis = f(self.%s, ndim)`, found %d" % (cls, attr, len(found)))
    out.append("/-- generated from `%s._apply`: the axis that is sliced (from `self.%s`) -/\ndef %s (%s ndim : Int) : Int := %s\n" % (
        cls, attr, lean, attr, T.formula(_flat(found[0]), [attr, "ndim"])))


def gen_stack_params(ctx=None):
    tree = _parse("sigpy/linop.py")
    out = [HEADER % "sigpy/linop.py"]
    _params(T.find_function(tree, "_hstack_params"), "ishape", "hstack", out)
    _params(T.find_function(tree, "_vstack_params"), "oshape", "vstack", out)
    _apply_axis(tree, "Hstack", "axis", "hstackApplyAxis", out)
    _apply_axis(tree, "Vstack", "axis", "vstackApplyAxis", out)
    _apply_axis(tree, "Diag", "iaxis", "diagApplyIAxis", out)
    _apply_axis(tree, "Diag", "oaxis", "diagApplyOAxis", out)
    out.append("end SigpyVerif.Gen\n")
    return "\n".join(out)


GENERATORS = {"StackParams": gen_stack_params}
