"""Translator plugin for C03 (sigpy/linop.py -> lean/SigpyVerif/Gen/StackParams.lean).

T3 (class `_Seq`): `_hstack_params` and `_vstack_params` are translated FAITHFULLY, statement by statement in source
order, into `Gen.hstackParams / hstackParamsAx / hstackOuterStep / hstackInnerStep` (and `vstack…`): the
`axis is None` recursion, `shapes[0]` / `shapes[0][axis]` (IndexError) before `axis = axis % ndim`, the fold over
`shapes[1:]` with the `len(shape) != ndim` test, and the fold over `i in range(ndim)` with the source's branch
structure (`if i == axis: … elif shape[i] != ishape[i]: raise`) and the three on-axis updates in source order.
`_guard`: the shape guards `Linop._check_ishape/_check_oshape` -> `Gen.checkIshape / checkOshape`.
T2 (`_apply_axis`): the axis normalisation of `Hstack/Vstack/Diag._apply`.
`Props/C03Loop.lean` proves that the translated loops equal the hand-written model `stackParams` / `zipGuard` for
every input (`gen_loop_eq_combined`, `gen_guard_agree`).  Any construct outside the subset raises `T.Unsupported`
(a broken obligation, never a pass)."""
import ast
import copy
import re

from harness.translate import py2lean as T
from harness.translate.gen import HEADER, _parse


class _Flatten(ast.NodeTransformer):
    """`name[i]` -> `name_i`, `self.axis` -> `axis` so that T2 sees plain int variables"""

    def visit_Subscript(self, n):
        if isinstance(n.value, ast.Name) and isinstance(n.slice, ast.Name):
            return ast.copy_location(ast.Name(id="%s_%s" % (n.value.id, n.slice.id), ctx=ast.Load()), n)
        return self.generic_visit(n)

    def visit_Attribute(self, n):
        if isinstance(n.value, ast.Name) and n.value.id == "self":
            return ast.copy_location(ast.Name(id=n.attr, ctx=ast.Load()), n)
        return self.generic_visit(n)


def _flat(node):
    return _Flatten().visit(copy.deepcopy(node))


def _apply_axis(tree, cls, attr, lean, out):
    fn = T.find_function(tree, cls + "._apply")
    found = []
    for n in ast.walk(fn):
        if isinstance(n, ast.Assign) and len(n.targets) == 1 and isinstance(n.targets[0], ast.Name) and n.targets[0].id == "axis":
            names = {m.attr for m in ast.walk(n.value) if isinstance(m, ast.Attribute) and isinstance(m.value, ast.Name) and m.value.id == "self"}
            if names == {attr}:
                found.append(n.value)
    if len(found) != 1:
        raise T.Unsupported("%s._apply: expected exactly one `axis = f(self.%s, ndim)`, found %d" % (cls, attr, len(found)))
    out.append("/-- generated from `%s._apply`: the axis that is sliced (from `self.%s`) -/\ndef %s (%s ndim : Int) : Int := %s\n" % (
        cls, attr, lean, attr, T.formula(_flat(found[0]), [attr, "ndim"])))


# ---------------------------------------------------------------------------------------------------------
# T3: sequential statement translator for `_hstack_params` / `_vstack_params` (Python ast -> Lean text).
#
# Every statement is translated in source order into the continuation of the previous one, so swapping two
# statements, moving `indices.append(idx)` behind `idx += ...`, dropping the normalisation or weakening a test
# changes the generated definition (and `Props/C03Loop.lean: gen_loop_eq_combined` is re-checked against it).
#
# Types: Nat (list entries, lengths, loop counters), Int (`axis`), List Nat, List (List Nat).  Python
# exceptions are `.error .build`.  Reads that can raise are explicit: `shapes[0]` -> `match shapes with`,
# `l[axis]` with an Int index -> `C03.pyIndex`, `%` -> zero-divisor test.  A read `X[i]` with a loop counter is
# translated to `X.getD i 0` ONLY when the translator has established `len(X) == N` and `i in range(N)` from
# the preceding statements (`N = len(X)`, `if len(X) != N: raise`); otherwise it is Unsupported.  Anything
# outside the subset raises T.Unsupported — no statement is ever skipped.
# ---------------------------------------------------------------------------------------------------------
NAT, INTT, LN, LLN = "Nat", "Int", "List Nat", "List (List Nat)"
_CONST = re.compile(r"^\((\d+) : Nat\)$")


def _to_int(s, t):
    if t == INTT:
        return s
    if t == NAT:
        m = _CONST.match(s)
        return "(%s : Int)" % m.group(1) if m else "((%s : Nat) : Int)" % s
    raise T.Unsupported("cannot use a %s as an int: %s" % (t, s))


class _Ctx:
    def __init__(self, env, rank=None, bound=None, split=False, loop=None, depth=0):
        self.env = dict(env)          # name -> type, in declaration order
        self.rank = dict(rank or {})  # list name -> scalar name N with len(list) == N
        self.bound = dict(bound or {})  # counter name -> scalar name N with 0 <= counter < N
        self.split = split            # `shapes` already destructured into shapes_0 :: shapes_rest
        self.loop = loop              # None at function level, else the state tuple of the enclosing loop body
        self.depth = depth

    def copy(self):
        return _Ctx(self.env, self.rank, self.bound, self.split, self.loop, self.depth)


def _is_shapes0(n):
    return isinstance(n, ast.Subscript) and isinstance(n.value, ast.Name) and n.value.id == "shapes" \
        and isinstance(n.slice, ast.Constant) and n.slice.value == 0 and not isinstance(n.slice.value, bool)


def _is_shapes_tail(n):
    return isinstance(n, ast.Subscript) and isinstance(n.value, ast.Name) and n.value.id == "shapes" \
        and isinstance(n.slice, ast.Slice) and isinstance(n.slice.lower, ast.Constant) and n.slice.lower.value == 1 \
        and n.slice.upper is None and n.slice.step is None


def _len_of(n):
    """`len(X)` with X a name -> X, else None"""
    if isinstance(n, ast.Call) and isinstance(n.func, ast.Name) and n.func.id == "len" and len(n.args) == 1 \
            and not n.keywords and isinstance(n.args[0], ast.Name):
        return n.args[0].id
    return None


class _Seq:
    LOOPS = ["OuterStep", "InnerStep"]

    def __init__(self, fn, prefix):
        self.fn, self.prefix = fn, prefix
        self.defs = []
        self.used_loops = set()

    def bad(self, what, node=None):
        raise T.Unsupported("%s: %s%s" % (self.fn.name, what, "" if node is None else ": " + ast.dump(node)[:90]))

    # ---- expressions -------------------------------------------------------------------------------
    def ex(self, e, c):
        if isinstance(e, ast.Constant):
            if isinstance(e.value, bool) or not isinstance(e.value, int) or e.value < 0:
                self.bad("constant", e)
            return "(%d : Nat)" % e.value, NAT
        if isinstance(e, ast.Name):
            if e.id not in c.env:
                self.bad("unknown name %s" % e.id)
            return T.nm(e.id), c.env[e.id]
        if isinstance(e, ast.List):
            elts = [self.ex(x, c) for x in e.elts]
            if any(t != NAT for _, t in elts):
                self.bad("list literal with non-Nat entries", e)
            return "[" + ", ".join(s for s, _ in elts) + "]", LN
        if isinstance(e, ast.UnaryOp) and isinstance(e.op, ast.USub):
            s, t = self.ex(e.operand, c)
            return "(-%s)" % _to_int(s, t), INTT
        if isinstance(e, ast.BinOp):
            (a, ta), (b, tb) = self.ex(e.left, c), self.ex(e.right, c)
            if isinstance(e.op, (ast.Add, ast.Mult)):
                sym = "+" if isinstance(e.op, ast.Add) else "*"
                if ta == NAT and tb == NAT:
                    return "(%s %s %s)" % (a, sym, b), NAT
                return "(%s %s %s)" % (_to_int(a, ta), sym, _to_int(b, tb)), INTT
            if isinstance(e.op, ast.Sub):
                return "(%s - %s)" % (_to_int(a, ta), _to_int(b, tb)), INTT
            self.bad("binary operator (`%` only as a whole right-hand side `x = a % b`)", e)
        if isinstance(e, ast.Call) and isinstance(e.func, ast.Name) and not e.keywords and len(e.args) == 1:
            s, t = self.ex(e.args[0], c)
            if e.func.id == "len" and t in (LN, LLN):
                return "%s.length" % s, NAT
            if e.func.id == "list" and t in (LN, LLN):
                return s, t   # a copy: lists are values in Lean
            self.bad("call", e)
        if isinstance(e, ast.Subscript):
            if _is_shapes0(e):
                if not c.split:
                    self.bad("internal: shapes[0] before the match")
                return "shapes_0", LN
            if _is_shapes_tail(e):
                if not c.split:
                    self.bad("shapes[1:] before shapes[0] was read")
                return "shapes_rest", LLN
            if isinstance(e.value, ast.Name) and isinstance(e.slice, ast.Name):
                X, i = e.value.id, e.slice.id
                if c.env.get(X) == LN and c.env.get(i) == NAT:
                    if X in c.rank and c.bound.get(i) == c.rank[X]:
                        return "%s.getD %s 0" % (T.nm(X), T.nm(i)), NAT
                    self.bad("read %s[%s] is not known to be in range (no `len(%s) == N` test / `%s in range(N)`)" % (X, i, X, i))
            self.bad("subscript", e)
        self.bad("expression", e)

    def atom(self, s):
        return s if re.match(r"^[\w.']+$", s) or s.startswith("(") or s.startswith("[") else "(%s)" % s

    def cond(self, e, c):
        if isinstance(e, ast.BoolOp):
            sym = " ∧ " if isinstance(e.op, ast.And) else " ∨ "
            return "(" + sym.join(self.cond(v, c) for v in e.values) + ")"
        if isinstance(e, ast.UnaryOp) and isinstance(e.op, ast.Not):
            return "(¬ %s)" % self.cond(e.operand, c)
        if isinstance(e, ast.Compare):
            parts, left = [], e.left
            for op, right in zip(e.ops, e.comparators):
                (a, ta), (b, tb) = self.ex(left, c), self.ex(right, c)
                sym = {ast.Lt: "<", ast.LtE: "≤", ast.Gt: ">", ast.GtE: "≥", ast.Eq: "=", ast.NotEq: "≠"}.get(type(op))
                if sym is None:
                    self.bad("comparison operator", e)
                if ta == tb and (ta in (NAT, INTT) or sym in ("=", "≠")):
                    parts.append("%s %s %s" % (a, sym, b))
                elif {ta, tb} == {NAT, INTT}:
                    parts.append("%s %s %s" % (_to_int(a, ta), sym, _to_int(b, tb)))
                else:
                    self.bad("comparison of %s with %s" % (ta, tb), e)
                left = right
            return parts[0] if len(parts) == 1 else "(" + " ∧ ".join(parts) + ")"
        self.bad("condition", e)

    # ---- facts ---------------------------------------------------------------------------------------
    def assign(self, c, name, ty, keeps_length=False):
        """bookkeeping for `name = ...`; returns nothing.  Invalidated length facts inside a loop body would
        need a loop invariant the translator does not compute -> Unsupported."""
        if name in ("shapes", "shapes_0", "shapes_rest"):
            self.bad("assignment to %s" % name)
        if name in c.env and c.env[name] != ty:
            self.bad("%s changes type from %s to %s" % (name, c.env[name], ty))
        if name in c.bound:
            self.bad("assignment to the loop counter %s" % name)
        dead = []
        if not keeps_length and name in c.rank:
            dead.append(name)
        dead += [k for k, v in c.rank.items() if v == name] + [k for k, v in c.bound.items() if v == name]
        if dead and c.loop is not None:
            self.bad("assignment to %s inside a loop invalidates a length fact" % name)
        for k in dead:
            c.rank.pop(k, None)
            c.bound.pop(k, None)
        c.env[name] = ty

    # ---- statements (continuation passing: `k(c, ind)` is the text of what follows the block) ---------
    def block(self, stmts, c, ind, k):
        if not stmts:
            return k(c, ind)
        s, rest = stmts[0], stmts[1:]
        pad = "  " * ind
        if isinstance(s, ast.Expr) and isinstance(s.value, ast.Constant) and isinstance(s.value.value, str):
            return self.block(rest, c, ind, k)   # docstring / string statement: no effect
        # the first evaluation of `shapes[0]` raises IndexError on an empty list
        first_eval = s.test if isinstance(s, ast.If) else s.iter if isinstance(s, ast.For) else s
        if not c.split and any(_is_shapes0(n) for n in ast.walk(first_eval)):
            if c.loop is not None:
                self.bad("shapes[0] first read inside a loop")
            c.split = True
            return (pad + "match shapes with\n" + pad + "| [] => .error .build  -- shapes[0]: IndexError\n"
                    + pad + "| shapes_0 :: shapes_rest =>\n" + self.block(stmts, c, ind + 1, k))
        nxt = lambda c2, ind2: self.block(rest, c2, ind2, k)
        if isinstance(s, ast.AugAssign):
            if not isinstance(s.op, (ast.Add, ast.Mod)):
                self.bad("augmented assignment operator", s)
            load = copy.deepcopy(s.target)
            for n in ast.walk(load):
                if hasattr(n, "ctx"):
                    n.ctx = ast.Load()
            s = ast.Assign(targets=[s.target], value=ast.BinOp(left=load, op=s.op, right=s.value))
        if isinstance(s, ast.Assign):
            if len(s.targets) != 1:
                self.bad("chained assignment", s)
            tgt, val = s.targets[0], s.value
            if isinstance(tgt, ast.Name):
                # name = L[e] with an Int index: Python list indexing with negative wrap-around, IndexError outside
                if isinstance(val, ast.Subscript) and not _is_shapes0(val) and not _is_shapes_tail(val) \
                        and not isinstance(val.slice, ast.Slice):
                    (l, tl), (i, ti) = self.ex(val.value, c), self.ex(val.slice, c)
                    if tl == LN and ti == INTT:
                        self.assign(c, tgt.id, NAT)
                        return (pad + "match C03.pyIndex %s %s with\n" % (self.atom(l), self.atom(i))
                                + pad + "| none => .error .build  -- IndexError\n"
                                + pad + "| some %s =>\n" % T.nm(tgt.id) + nxt(c, ind))
                if isinstance(val, ast.BinOp) and isinstance(val.op, ast.Mod):
                    (a, ta), (b, tb) = self.ex(val.left, c), self.ex(val.right, c)
                    a, b = _to_int(a, ta), _to_int(b, tb)
                    self.assign(c, tgt.id, INTT)
                    return (pad + "if %s = 0 then .error .build  -- ZeroDivisionError\n" % b + pad + "else\n"
                            + pad + "let %s : Int := pyMod %s %s\n" % (T.nm(tgt.id), self.atom(a), self.atom(b)) + nxt(c, ind))
                v, ty = self.ex(val, c)
                src = _len_of(val)
                self.assign(c, tgt.id, ty)
                if src is not None and c.env.get(src) in (LN,) and src != tgt.id:
                    c.rank[src] = tgt.id       # N = len(X)
                return pad + "let %s : %s := %s\n" % (T.nm(tgt.id), ty, v) + nxt(c, ind)
            if isinstance(tgt, ast.Subscript) and isinstance(tgt.value, ast.Name) and isinstance(tgt.slice, ast.Name):
                X, i = tgt.value.id, tgt.slice.id
                if not (c.env.get(X) == LN and c.env.get(i) == NAT and X in c.rank and c.bound.get(i) == c.rank[X]):
                    self.bad("write %s[%s] is not known to be in range" % (X, i))
                v, ty = self.ex(val, c)
                if ty != NAT:
                    self.bad("list entry of type %s" % ty, val)
                self.assign(c, X, LN, keeps_length=True)
                return pad + "let %s : List Nat := %s.set %s %s\n" % (T.nm(X), T.nm(X), T.nm(i), self.atom(v)) + nxt(c, ind)
            self.bad("assignment target", tgt)
        if isinstance(s, ast.Expr) and isinstance(s.value, ast.Call) and isinstance(s.value.func, ast.Attribute) \
                and s.value.func.attr == "append" and isinstance(s.value.func.value, ast.Name) \
                and len(s.value.args) == 1 and not s.value.keywords:
            X = s.value.func.value.id
            if c.env.get(X) != LN:
                self.bad("append to %s" % X)
            v, ty = self.ex(s.value.args[0], c)
            if ty != NAT:
                self.bad("appended value of type %s" % ty, s)
            self.assign(c, X, LN)
            return pad + "let %s : List Nat := %s ++ [%s]\n" % (T.nm(X), T.nm(X), v) + nxt(c, ind)
        if isinstance(s, ast.Raise):
            if rest:
                self.bad("statement after raise")
            return pad + ".error .build"
        if isinstance(s, ast.Return):
            if c.loop is not None:
                self.bad("return inside a loop")
            if rest:
                self.bad("statement after return")
            if not (isinstance(s.value, ast.Tuple) and len(s.value.elts) == 2):
                self.bad("return value form", s)
            vals = [self.ex(v, c) for v in s.value.elts]
            if [t for _, t in vals] != [LN, LN]:
                self.bad("return type %s" % [t for _, t in vals])
            return pad + ".ok (%s, %s)" % (vals[0][0], vals[1][0])
        if isinstance(s, ast.If):
            test = self.cond(s.test, c)
            c_then, c_else = c.copy(), c.copy()
            # `if len(X) != N: raise` establishes len(X) == N for what follows
            if isinstance(s.test, ast.Compare) and len(s.test.ops) == 1 and isinstance(s.test.ops[0], ast.NotEq) \
                    and s.body and isinstance(s.body[-1], ast.Raise):
                for a, b in ((s.test.left, s.test.comparators[0]), (s.test.comparators[0], s.test.left)):
                    X = _len_of(a)
                    if X is not None and isinstance(b, ast.Name) and c.env.get(X) == LN and c.env.get(b.id) == NAT:
                        c_else.rank[X] = b.id
            th = self.block(s.body, c_then, ind + 1, nxt)
            el = self.block(s.orelse, c_else, ind + 1, nxt)
            return pad + "if %s then\n%s\n%selse\n%s" % (test, th, pad, el)
        if isinstance(s, ast.For):
            return self.loop(s, rest, c, ind, k)
        self.bad("statement", s)

    def loop(self, s, rest, c, ind, k):
        pad = "  " * ind
        if s.orelse or not isinstance(s.target, ast.Name):
            self.bad("for form", s)
        var = s.target.id
        if var in c.env:
            self.bad("loop variable %s shadows a variable" % var)
        cb = c.copy()
        if _is_shapes_tail(s.iter):
            lst, vty = self.ex(s.iter, c)[0], LN
        elif isinstance(s.iter, ast.Call) and isinstance(s.iter.func, ast.Name) and s.iter.func.id == "range" \
                and len(s.iter.args) == 1 and not s.iter.keywords and isinstance(s.iter.args[0], ast.Name) \
                and c.env.get(s.iter.args[0].id) == NAT:
            lst, vty = "(List.range %s)" % T.nm(s.iter.args[0].id), NAT
            cb.bound[var] = s.iter.args[0].id
        else:
            self.bad("loop is neither `for x in shapes[1:]` nor `for i in range(<nat variable>)`", s.iter)
        if c.depth >= len(self.LOOPS):
            self.bad("loop nesting deeper than 2")
        name = self.prefix + self.LOOPS[c.depth]
        if name in self.used_loops:
            self.bad("two loops at nesting depth %d" % c.depth)
        self.used_loops.add(name)
        assigned, used = set(), set()
        for b in s.body:
            for n in ast.walk(b):
                if isinstance(n, ast.Name):
                    used.add(n.id)
                    if isinstance(n.ctx, ast.Store):
                        assigned.add(n.id)
                if isinstance(n, (ast.Assign, ast.AugAssign)):
                    for t in (n.targets if isinstance(n, ast.Assign) else [n.target]):
                        if isinstance(t, ast.Subscript) and isinstance(t.value, ast.Name):
                            assigned.add(t.value.id)
                if isinstance(n, ast.Call) and isinstance(n.func, ast.Attribute) and isinstance(n.func.value, ast.Name):
                    assigned.add(n.func.value.id)   # method call on a variable (append): treated as an update
        state = [v for v in c.env if v in assigned]
        if not state:
            self.bad("loop without state")
        if "shapes" in used:
            self.bad("`shapes` used inside a loop body")
        params = [v for v in c.env if v not in state and v != "shapes"
                  and (c.env[v] in (NAT, INTT) or v in used)]
        sty = " × ".join(c.env[v] for v in state)
        tup = "(" + ", ".join(T.nm(v) for v in state) + ")"
        cb.env[var] = vty
        cb.loop = state
        cb.depth = c.depth + 1
        body = self.block(s.body, cb, 2, lambda c2, ind2: "  " * ind2 + ".ok " + tup)
        src = ast.unparse(s).split("\n")[0]
        self.defs.append(
            "/-- generated from `%s`: one iteration of `%s` (state `%s`), statement by statement -/\n"
            "def %s %s (st : %s) (%s : %s) :\n    Except C03.Err (%s) :=\n  match st with\n  | %s =>\n%s\n" % (
                self.fn.name, src, tup, name, " ".join("(%s : %s)" % (T.nm(v), c.env[v]) for v in params), sty,
                T.nm(var), vty, sty, tup, body))
        call = "C03.foldE (%s) %s %s" % (" ".join([name] + [T.nm(v) for v in params]), tup, lst)
        return (pad + "match %s with\n" % call + pad + "| .error e => .error e\n" + pad + "| .ok %s =>\n" % tup
                + self.block(rest, c, ind, k))

    # ---- the function ----------------------------------------------------------------------------------
    def translate(self):
        fn = self.fn
        a = fn.args
        if [x.arg for x in a.args] != ["shapes", "axis"] or a.vararg or a.kwarg or a.kwonlyargs or a.posonlyargs or a.defaults:
            self.bad("signature")
        body = list(fn.body)
        if body and isinstance(body[0], ast.Expr) and isinstance(body[0].value, ast.Constant) and isinstance(body[0].value.value, str):
            body = body[1:]
        if not body:
            self.bad("empty body")
        # `if axis is None: return <same function>([[util.prod(shape)] for shape in shapes], <const>)`
        d = body[0]
        ok = isinstance(d, ast.If) and not d.orelse and isinstance(d.test, ast.Compare) and len(d.test.ops) == 1 \
            and isinstance(d.test.ops[0], ast.Is) and isinstance(d.test.left, ast.Name) and d.test.left.id == "axis" \
            and isinstance(d.test.comparators[0], ast.Constant) and d.test.comparators[0].value is None \
            and len(d.body) == 1 and isinstance(d.body[0], ast.Return) and isinstance(d.body[0].value, ast.Call)
        if not ok:
            self.bad("first statement is not `if axis is None: return <call>`", d)
        call = d.body[0].value
        if not (isinstance(call.func, ast.Name) and call.func.id == fn.name and len(call.args) == 2 and not call.keywords):
            self.bad("the `axis is None` branch does not call %s(<shapes>, <axis>)" % fn.name, call)
        lc, const = call.args
        if not (isinstance(const, ast.Constant) and isinstance(const.value, int) and not isinstance(const.value, bool)):
            self.bad("axis argument of the recursive call is not an int constant", const)
        if not (isinstance(lc, ast.ListComp) and len(lc.generators) == 1 and not lc.generators[0].ifs
                and not lc.generators[0].is_async and isinstance(lc.generators[0].target, ast.Name)
                and isinstance(lc.generators[0].iter, ast.Name) and lc.generators[0].iter.id == "shapes"):
            self.bad("shapes argument of the recursive call is not `[.. for x in shapes]`", lc)
        v = lc.generators[0].target.id
        e = lc.elt
        if not (isinstance(e, ast.List) and len(e.elts) == 1 and isinstance(e.elts[0], ast.Call) and not e.elts[0].keywords
                and isinstance(e.elts[0].func, ast.Attribute) and e.elts[0].func.attr == "prod"
                and isinstance(e.elts[0].func.value, ast.Name) and e.elts[0].func.value.id == "util"
                and len(e.elts[0].args) == 1 and isinstance(e.elts[0].args[0], ast.Name) and e.elts[0].args[0].id == v):
            self.bad("flattened shape is not `[util.prod(%s)]`" % v, e)
        for n in body[1:]:
            for m in ast.walk(n):
                if isinstance(m, ast.Constant) and m.value is None:
                    self.bad("`None` after the `axis is None` dispatch")
        c = _Ctx({"shapes": LLN, "axis": INTT})

        def falls_off(c2, ind2):
            self.bad("control can reach the end of the function without `return`")
        text = self.block(body[1:], c, 1, falls_off)
        P = self.prefix
        rt = "Except C03.Err (List Nat × List Nat)"
        out = list(self.defs)
        out.append("/-- generated from `%s`: the body after the `axis is None` dispatch (`axis` is an int), statement by\n"
                   "    statement in source order; every Python exception is `.error .build` -/\n"
                   "def %sParamsAx (shapes : List (List Nat)) (axis : Int) : %s :=\n%s\n" % (fn.name, P, rt, text))
        out.append("/-- generated from `%s`: `if axis is None: return %s([[util.prod(%s)] for %s in shapes], %d)` -/\n"
                   "def %sParams (shapes : List (List Nat)) (axis : Option Int) : %s :=\n  match axis with\n"
                   "  | none => %sParamsAx (shapes.map fun %s => [C03.sprod %s]) (%d : Int)\n"
                   "  | some axis => %sParamsAx shapes axis\n" % (
                       fn.name, fn.name, v, v, const.value, P, rt, P, T.nm(v), T.nm(v), const.value, P))
        return out


def _guard(tree, meth, attr, lean, out):
    """`Linop._check_ishape/_check_oshape`: `for a, b in zip(<array>.shape, self.<attr>): if COND: raise`"""
    fn = T.find_function(tree, "Linop." + meth)

    def bad(what):
        raise T.Unsupported("Linop.%s: %s" % (meth, what))
    args = [a.arg for a in fn.args.args]
    if len(args) != 2 or args[0] != "self" or fn.args.vararg or fn.args.kwarg or fn.args.kwonlyargs or fn.args.defaults:
        bad("signature %s" % args)
    body = list(fn.body)
    if body and isinstance(body[0], ast.Expr) and isinstance(body[0].value, ast.Constant) and isinstance(body[0].value.value, str):
        body = body[1:]
    if len(body) != 1 or not isinstance(body[0], ast.For) or body[0].orelse:
        bad("body is not a single `for` loop")
    f = body[0]
    if not (isinstance(f.target, ast.Tuple) and len(f.target.elts) == 2 and all(isinstance(e, ast.Name) for e in f.target.elts)):
        bad("loop target is not a pair of names")
    a, b = [e.id for e in f.target.elts]
    if a == b:
        bad("loop target names coincide")
    it = f.iter
    if not (isinstance(it, ast.Call) and isinstance(it.func, ast.Name) and it.func.id == "zip" and len(it.args) == 2 and not it.keywords):
        bad("loop is not over zip(_, _)")
    x, y = it.args
    if not (isinstance(x, ast.Attribute) and x.attr == "shape" and isinstance(x.value, ast.Name) and x.value.id == args[1]):
        bad("first zip argument is not %s.shape" % args[1])
    if not (isinstance(y, ast.Attribute) and y.attr == attr and isinstance(y.value, ast.Name) and y.value.id == "self"):
        bad("second zip argument is not self.%s" % attr)
    if len(f.body) != 1 or not isinstance(f.body[0], ast.If) or f.body[0].orelse \
            or len(f.body[0].body) != 1 or not isinstance(f.body[0].body[0], ast.Raise):
        bad("loop body is not `if COND: raise`")
    cond = T.Expr({a: T.INT, b: T.INT}).cond(f.body[0].test)
    out.append("/-- generated from `Linop.%s`: the test that raises for one pair `(%s, %s)` of `zip(%s.shape, self.%s)` -/\n"
               "def %sRejects (%s %s : Int) : Bool := decide %s\n" % (meth, a, b, args[1], attr, lean, T.nm(a), T.nm(b), cond))
    out.append("/-- generated from `Linop.%s`: `for %s, %s in zip(%s.shape, self.%s): if ..: raise` — accepted iff no pair is\n"
               "    rejected (`zip` stops at the shorter list) -/\n"
               "def %s (got adv : List Int) : Bool := (List.zip got adv).all fun p => !(%sRejects p.1 p.2)\n" % (
                   meth, a, b, args[1], attr, lean, lean))



def gen_stack_params(ctx=None):
    tree = _parse("sigpy/linop.py")
    out = [(HEADER % "sigpy/linop.py").replace("import SigpyVerif.Model.Py\n",
                                                "import SigpyVerif.Model.Py\nimport SigpyVerif.Model.C03Base\n")]
    _apply_axis(tree, "Hstack", "axis", "hstackApplyAxis", out)
    _apply_axis(tree, "Vstack", "axis", "vstackApplyAxis", out)
    _apply_axis(tree, "Diag", "iaxis", "diagApplyIAxis", out)
    _apply_axis(tree, "Diag", "oaxis", "diagApplyOAxis", out)
    # faithful statement-by-statement translation of both parameter functions and of the shape guards
    out.extend(_Seq(T.find_function(tree, "_hstack_params"), "hstack").translate())
    out.extend(_Seq(T.find_function(tree, "_vstack_params"), "vstack").translate())
    _guard(tree, "_check_ishape", "ishape", "checkIshape", out)
    _guard(tree, "_check_oshape", "oshape", "checkOshape", out)
    out.append("end SigpyVerif.Gen\n")
    return "\n".join(out)


GENERATORS = {"StackParams": gen_stack_params}
