"""Translator plugin for C03 (sigpy/linop.py -> lean/SigpyVerif/Gen/StackParams.lean).

T3 (class `_Seq`): `_hstack_params` and `_vstack_params` are translated FAITHFULLY, statement by statement in source
order, into `Gen.hstackParams / hstackParamsAx / hstackOuterStep / hstackInnerStep` (and `vstack…`): the
`axis is None` recursion, `shapes[0]` / `shapes[0][axis]` (IndexError) before `axis = axis % ndim`, the fold over
`shapes[1:]` with the `len(shape) != ndim` test, and the fold over `i in range(ndim)` with the source's branch
structure (`if i == axis: … elif shape[i] != ishape[i]: raise`) and the three on-axis updates in source order.
`_guard`: the shape guards `Linop._check_ishape/_check_oshape` -> `Gen.checkIshape / checkOshape`.
T2 (`_apply_axis`): the axis normalisation of `Hstack/Vstack/Diag._apply`.
`Props/C03Loop.lean` proves that the translated loops equal the hand-written model `stackParams` / `zipGuard` for
every input (`gen_loop_eq_combined`, `gen_guard_agree`).  Any construct outside the subset raises `T.Unsupported`
(a broken obligation, never a pass).

Robustness to behaviour-preserving respellings: the parsed source first goes through `norm_c03.normalize` (exact Python
equivalences only: negation normal form / swapped branches, `reversed(X)` = `X[::-1]`, `zip(X, X[1:])`, any/all guards,
`x = a if c else b`, inlining of straight-line private helpers with arguments resolved against the signature, keyword ->
positional, substitution of total single-assignment temporaries), and the typed translators emit every integer sum and
every single integer comparison in ONE canonical order (`_lin_sum`, `_lin_cmp`: `ndim - 1 - axis` = `ndim - axis - 1`,
`n + 1 == nops` = `n == nops - 1`; `+` on lists / arrays is never reordered).  Both are equivalences: a changed constant, sign,
operand, branch or argument still changes the generated definition.  `norm_c03.selftest()` runs on every check."""
import ast
import copy
import re

from harness.translate import norm_c03 as N
from harness.translate import py2lean as T
from harness.translate.gen import HEADER, _parse


class _Flatten(ast.NodeTransformer):
    """`name[i]` -> `name_i`, `self.axis` -> `axis` so that T2 sees plain int variables"""

    def visit_Subscript(self, n):
        if isinstance(n.value, ast.Name) and isinstance(n.slice, ast.Name):
            return ast.copy_location(ast.Name(id="%s_%s" % (n.value.id, n.slice.id), ctx=ast.Load()), n)
        return self.generic_visit(n)

    def visit_Attribute(self, n):
        if isinstance(n.value, ast.Name) and n.value.id == "self":
            return ast.copy_location(ast.Name(id=n.attr, ctx=ast.Load()), n)
        return self.generic_visit(n)


def _flat(node):
    return _Flatten().visit(copy.deepcopy(node))


def _apply_axis(tree, cls, attr, lean, out):
    """the one assignment `<name> = f(self.<attr>, <rank>)` of `<cls>._apply` (a plain alias `x = self.<attr>` is not one);
    `<rank>` is the single other operand (a name or a `len(..)`): it becomes the formula's variable `ndim`"""
    fn = T.find_function(tree, cls + "._apply")
    found = []
    for n in ast.walk(fn):
        if isinstance(n, ast.Assign) and len(n.targets) == 1 and isinstance(n.targets[0], ast.Name) and not N._is_self_attr(n.value):
            names = {m.attr for m in ast.walk(n.value) if isinstance(m, ast.Attribute) and isinstance(m.value, ast.Name) and m.value.id == "self"}
            if names == {attr}:
                found.append(n.value)
    if len(found) != 1:
        raise T.Unsupported("%s._apply: expected exactly one `axis = f(self.%s, ndim)`, found %d" % (cls, attr, len(found)))
    ranks = {}

    class R(ast.NodeTransformer):
        def visit_Call(v, m):
            if isinstance(m.func, ast.Name) and m.func.id == "len" and len(m.args) == 1 and not m.keywords:
                ranks[ast.dump(m)] = 1
                return ast.copy_location(ast.Name(id="ndim", ctx=ast.Load()), m)
            return v.generic_visit(m)

        def visit_Attribute(v, m):
            return m

        def visit_Name(v, m):
            ranks[ast.dump(m)] = 1
            return ast.copy_location(ast.Name(id="ndim", ctx=ast.Load()), m)
    expr = R().visit(copy.deepcopy(found[0]))
    if len(ranks) != 1:
        raise T.Unsupported("%s._apply: `%s` is not a function of self.%s and ONE rank operand" % (cls, ast.unparse(found[0]), attr))
    out.append("/-- generated from `%s._apply`: the axis that is sliced (from `self.%s`) -/\ndef %s (%s ndim : Int) : Int := %s\n" % (
        cls, attr, lean, attr, T.formula(_flat(expr), [attr, "ndim"])))


# ---------------------------------------------------------------------------------------------------------
# T3: sequential statement translator for `_hstack_params` / `_vstack_params` (Python ast -> Lean text).
#
# Every statement is translated in source order into the continuation of the previous one, so swapping two
# statements, moving `indices.append(idx)` behind `idx += ...`, dropping the normalisation or weakening a test
# changes the generated definition (and `Props/C03Loop.lean: gen_loop_eq_combined` is re-checked against it).
#
# Types: Nat (list entries, lengths, loop counters), Int (`axis`), List Nat, List (List Nat).  Python
# exceptions are `.error .build`.  Reads that can raise are explicit: `shapes[0]` -> `match shapes with`,
# `l[axis]` with an Int index -> `C03.pyIndex`, `%` -> zero-divisor test.  A read `X[i]` with a loop counter is
# translated to `X.getD i 0` ONLY when the translator has established `len(X) == N` and `i in range(N)` from
# the preceding statements (`N = len(X)`, `if len(X) != N: raise`); otherwise it is Unsupported.  Anything
# outside the subset raises T.Unsupported — no statement is ever skipped.
# ---------------------------------------------------------------------------------------------------------
NAT, INTT, LN, LLN = "Nat", "Int", "List Nat", "List (List Nat)"
_CONST = re.compile(r"^\((\d+) : Nat\)$")


def _to_int(s, t):
    if t == INTT:
        return s
    if t == NAT:
        m = _CONST.match(s)
        return "(%s : Int)" % m.group(1) if m else "((%s : Nat) : Int)" % s
    raise T.Unsupported("cannot use a %s as an int: %s" % (t, s))


def _lin_build(pos, neg):
    """left-associated sum of the (text, type) items `pos` minus the items `neg`: Nat while only naturals are added,
    Int (with casts) as soon as something is subtracted or an Int takes part"""
    pos, neg = list(pos), list(neg)
    if not pos:
        if not neg:
            return "(0 : Nat)", NAT
        q = neg.pop(0)
        acc = ("(-%s)" % _to_int(*q), INTT)
    else:
        acc = pos[0]
        for p in pos[1:]:
            if acc[1] == NAT and p[1] == NAT:
                acc = ("(%s + %s)" % (acc[0], p[0]), NAT)
            else:
                acc = ("(%s + %s)" % (_to_int(*acc), _to_int(*p)), INTT)
    for q in neg:
        acc = ("(%s - %s)" % (_to_int(*acc), _to_int(*q)), INTT)
    return acc


def _lin_sum(terms):
    """terms [(sign, key|None, (text, type)|int)] -> canonical (text, type): variables in key order, positive ones first,
    the folded constant last (so `a + b` / `b + a`, `n - a - 1` / `n - 1 - a`, `x + 1 - 1` / `x` give ONE definition)"""
    P, Ng, k = N.canon_sum(terms)
    pos = [p for _, p in P] + ([("(%d : Nat)" % k, NAT)] if k > 0 else [])
    neg = [p for _, p in Ng] + ([("(%d : Nat)" % -k, NAT)] if k < 0 else [])
    return _lin_build(pos, neg)


_SYM = {ast.Lt: "<", ast.LtE: "≤", ast.Gt: ">", ast.GtE: "≥", ast.Eq: "=", ast.NotEq: "≠"}


def _lin_cmp(terms, op):
    """`L op R` given as the terms of `L - R` -> ((text, type), sym, (text, type)) with the canonical sides of `N.canon_cmp`"""
    P, kl, Q, kr, op = N.canon_cmp(terms, op)
    lhs = _lin_build([p for _, p in P] + ([("(%d : Nat)" % kl, NAT)] if kl > 0 else []), [])
    rhs = _lin_build([p for _, p in Q] + ([("(%d : Nat)" % kr, NAT)] if kr > 0 else []), [("(%d : Nat)" % -kr, NAT)] if kr < 0 else [])
    return lhs, _SYM[type(op)], rhs


class _Ctx:
    def __init__(self, env, rank=None, bound=None, split=False, loop=None, depth=0):
        self.env = dict(env)          # name -> type, in declaration order
        self.rank = dict(rank or {})  # list name -> scalar name N with len(list) == N
        self.bound = dict(bound or {})  # counter name -> scalar name N with 0 <= counter < N
        self.split = split            # `shapes` already destructured into shapes_0 :: shapes_rest
        self.loop = loop              # None at function level, else the state tuple of the enclosing loop body
        self.depth = depth

    def copy(self):
        return _Ctx(self.env, self.rank, self.bound, self.split, self.loop, self.depth)


def _is_shapes0(n):
    return isinstance(n, ast.Subscript) and isinstance(n.value, ast.Name) and n.value.id == "shapes" \
        and isinstance(n.slice, ast.Constant) and n.slice.value == 0 and not isinstance(n.slice.value, bool)


def _is_shapes_tail(n):
    return isinstance(n, ast.Subscript) and isinstance(n.value, ast.Name) and n.value.id == "shapes" \
        and isinstance(n.slice, ast.Slice) and isinstance(n.slice.lower, ast.Constant) and n.slice.lower.value == 1 \
        and n.slice.upper is None and n.slice.step is None


def _len_of(n):
    """`len(X)` with X a name -> X, else None"""
    if isinstance(n, ast.Call) and isinstance(n.func, ast.Name) and n.func.id == "len" and len(n.args) == 1 \
            and not n.keywords and isinstance(n.args[0], ast.Name):
        return n.args[0].id
    return None


class _Seq:
    LOOPS = ["OuterStep", "InnerStep"]

    def __init__(self, fn, prefix):
        self.fn, self.prefix = fn, prefix
        self.defs = []
        self.used_loops = set()

    def bad(self, what, node=None):
        raise T.Unsupported("%s: %s%s" % (self.fn.name, what, "" if node is None else ": " + ast.dump(node)[:90]))

    # ---- expressions -------------------------------------------------------------------------------
    def ex(self, e, c):
        if isinstance(e, ast.Constant):
            if isinstance(e.value, bool) or not isinstance(e.value, int) or e.value < 0:
                self.bad("constant", e)
            return "(%d : Nat)" % e.value, NAT
        if isinstance(e, ast.Name):
            if e.id not in c.env:
                self.bad("unknown name %s" % e.id)
            return T.nm(e.id), c.env[e.id]
        if isinstance(e, ast.List):
            elts = [self.ex(x, c) for x in e.elts]
            if any(t != NAT for _, t in elts):
                self.bad("list literal with non-Nat entries", e)
            return "[" + ", ".join(s for s, _ in elts) + "]", LN
        if isinstance(e, ast.UnaryOp) and isinstance(e.op, ast.USub):
            s, t = self.ex(e.operand, c)
            return "(-%s)" % _to_int(s, t), INTT
        if isinstance(e, ast.BinOp) and isinstance(e.op, (ast.Add, ast.Sub)):
            terms = []
            for sg, leaf in N.lin_terms(e):
                if N._is_int_const(leaf):
                    terms.append((sg, None, leaf.value))
                else:
                    terms.append((sg, ast.unparse(leaf), self.ex(leaf, c)))
            if all(key is None or p[1] in (NAT, INTT) for _, key, p in terms):
                return _lin_sum(terms)
        if isinstance(e, ast.BinOp):
            (a, ta), (b, tb) = self.ex(e.left, c), self.ex(e.right, c)
            if isinstance(e.op, (ast.Add, ast.Mult)):
                sym = "+" if isinstance(e.op, ast.Add) else "*"
                if ta == NAT and tb == NAT:
                    return "(%s %s %s)" % (a, sym, b), NAT
                return "(%s %s %s)" % (_to_int(a, ta), sym, _to_int(b, tb)), INTT
            if isinstance(e.op, ast.Sub):
                return "(%s - %s)" % (_to_int(a, ta), _to_int(b, tb)), INTT
            self.bad("binary operator (`%` only as a whole right-hand side `x = a % b`)", e)
        if isinstance(e, ast.Call) and isinstance(e.func, ast.Name) and not e.keywords and len(e.args) == 1:
            s, t = self.ex(e.args[0], c)
            if e.func.id == "len" and t in (LN, LLN):
                return "%s.length" % s, NAT
            if e.func.id == "list" and t in (LN, LLN):
                return s, t   # a copy: lists are values in Lean
            self.bad("call", e)
        if isinstance(e, ast.Subscript):
            if _is_shapes0(e):
                if not c.split:
                    self.bad("internal: shapes[0] before the match")
                return "shapes_0", LN
            if _is_shapes_tail(e):
                if not c.split:
                    self.bad("shapes[1:] before shapes[0] was read")
                return "shapes_rest", LLN
            if isinstance(e.value, ast.Name) and isinstance(e.slice, ast.Name):
                X, i = e.value.id, e.slice.id
                if c.env.get(X) == LN and c.env.get(i) == NAT:
                    if X in c.rank and c.bound.get(i) == c.rank[X]:
                        return "%s.getD %s 0" % (T.nm(X), T.nm(i)), NAT
                    self.bad("read %s[%s] is not known to be in range (no `len(%s) == N` test / `%s in range(N)`)" % (X, i, X, i))
            self.bad("subscript", e)
        self.bad("expression", e)

    def atom(self, s):
        return s if re.match(r"^[\w.']+$", s) or s.startswith("(") or s.startswith("[") else "(%s)" % s

    def cond(self, e, c):
        if isinstance(e, ast.BoolOp):
            sym = " ∧ " if isinstance(e.op, ast.And) else " ∨ "
            return "(" + sym.join(self.cond(v, c) for v in e.values) + ")"
        if isinstance(e, ast.UnaryOp) and isinstance(e.op, ast.Not):
            return "(¬ %s)" % self.cond(e.operand, c)
        if isinstance(e, ast.Compare) and len(e.ops) == 1 and type(e.ops[0]) in _SYM:
            terms = []
            for sg, leaf in N.lin_terms(e.left) + N.lin_terms(e.comparators[0], -1):
                terms.append((sg, None, leaf.value) if N._is_int_const(leaf) else (sg, ast.unparse(leaf), self.ex(leaf, c)))
            if all(key is None or p[1] in (NAT, INTT) for _, key, p in terms):
                (a, ta), sym, (b, tb) = _lin_cmp(terms, e.ops[0])
                return "%s %s %s" % ((a, sym, b) if ta == tb else (_to_int(a, ta), sym, _to_int(b, tb)))
        if isinstance(e, ast.Compare):
            parts, left = [], e.left
            for op, right in zip(e.ops, e.comparators):
                (a, ta), (b, tb) = self.ex(left, c), self.ex(right, c)
                sym = {ast.Lt: "<", ast.LtE: "≤", ast.Gt: ">", ast.GtE: "≥", ast.Eq: "=", ast.NotEq: "≠"}.get(type(op))
                if sym is None:
                    self.bad("comparison operator", e)
                if ta == tb and (ta in (NAT, INTT) or sym in ("=", "≠")):
                    parts.append("%s %s %s" % (a, sym, b))
                elif {ta, tb} == {NAT, INTT}:
                    parts.append("%s %s %s" % (_to_int(a, ta), sym, _to_int(b, tb)))
                else:
                    self.bad("comparison of %s with %s" % (ta, tb), e)
                left = right
            return parts[0] if len(parts) == 1 else "(" + " ∧ ".join(parts) + ")"
        self.bad("condition", e)

    # ---- facts ---------------------------------------------------------------------------------------
    def assign(self, c, name, ty, keeps_length=False):
        """bookkeeping for `name = ...`; returns nothing.  Invalidated length facts inside a loop body would
        need a loop invariant the translator does not compute -> Unsupported."""
        if name in ("shapes", "shapes_0", "shapes_rest"):
            self.bad("assignment to %s" % name)
        if name in c.env and c.env[name] != ty:
            self.bad("%s changes type from %s to %s" % (name, c.env[name], ty))
        if name in c.bound:
            self.bad("assignment to the loop counter %s" % name)
        dead = []
        if not keeps_length and name in c.rank:
            dead.append(name)
        dead += [k for k, v in c.rank.items() if v == name] + [k for k, v in c.bound.items() if v == name]
        if dead and c.loop is not None:
            self.bad("assignment to %s inside a loop invalidates a length fact" % name)
        for k in dead:
            c.rank.pop(k, None)
            c.bound.pop(k, None)
        c.env[name] = ty

    # ---- statements (continuation passing: `k(c, ind)` is the text of what follows the block) ---------
    def block(self, stmts, c, ind, k):
        if not stmts:
            return k(c, ind)
        s, rest = stmts[0], stmts[1:]
        pad = "  " * ind
        if isinstance(s, ast.Expr) and isinstance(s.value, ast.Constant) and isinstance(s.value.value, str):
            return self.block(rest, c, ind, k)   # docstring / string statement: no effect
        # the first evaluation of `shapes[0]` raises IndexError on an empty list
        first_eval = s.test if isinstance(s, ast.If) else s.iter if isinstance(s, ast.For) else s
        if not c.split and any(_is_shapes0(n) for n in ast.walk(first_eval)):
            if c.loop is not None:
                self.bad("shapes[0] first read inside a loop")
            c.split = True
            return (pad + "match shapes with\n" + pad + "| [] => .error .build  -- shapes[0]: IndexError\n"
                    + pad + "| shapes_0 :: shapes_rest =>\n" + self.block(stmts, c, ind + 1, k))
        nxt = lambda c2, ind2: self.block(rest, c2, ind2, k)
        if isinstance(s, ast.AugAssign):
            if not isinstance(s.op, (ast.Add, ast.Mod)):
                self.bad("augmented assignment operator", s)
            load = copy.deepcopy(s.target)
            for n in ast.walk(load):
                if hasattr(n, "ctx"):
                    n.ctx = ast.Load()
            s = ast.Assign(targets=[s.target], value=ast.BinOp(left=load, op=s.op, right=s.value))
        if isinstance(s, ast.Assign):
            if len(s.targets) != 1:
                self.bad("chained assignment", s)
            tgt, val = s.targets[0], s.value
            if isinstance(tgt, ast.Name):
                # name = L[e] with an Int index: Python list indexing with negative wrap-around, IndexError outside
                if isinstance(val, ast.Subscript) and not _is_shapes0(val) and not _is_shapes_tail(val) \
                        and not isinstance(val.slice, ast.Slice):
                    (l, tl), (i, ti) = self.ex(val.value, c), self.ex(val.slice, c)
                    if tl == LN and ti == INTT:
                        self.assign(c, tgt.id, NAT)
                        return (pad + "match C03.pyIndex %s %s with\n" % (self.atom(l), self.atom(i))
                                + pad + "| none => .error .build  -- IndexError\n"
                                + pad + "| some %s =>\n" % T.nm(tgt.id) + nxt(c, ind))
                if isinstance(val, ast.BinOp) and isinstance(val.op, ast.Mod):
                    (a, ta), (b, tb) = self.ex(val.left, c), self.ex(val.right, c)
                    a, b = _to_int(a, ta), _to_int(b, tb)
                    self.assign(c, tgt.id, INTT)
                    return (pad + "if %s = 0 then .error .build  -- ZeroDivisionError\n" % b + pad + "else\n"
                            + pad + "let %s : Int := pyMod %s %s\n" % (T.nm(tgt.id), self.atom(a), self.atom(b)) + nxt(c, ind))
                v, ty = self.ex(val, c)
                src = _len_of(val)
                self.assign(c, tgt.id, ty)
                if src is not None and c.env.get(src) in (LN,) and src != tgt.id:
                    c.rank[src] = tgt.id       # N = len(X)
                return pad + "let %s : %s := %s\n" % (T.nm(tgt.id), ty, v) + nxt(c, ind)
            if isinstance(tgt, ast.Subscript) and isinstance(tgt.value, ast.Name) and isinstance(tgt.slice, ast.Name):
                X, i = tgt.value.id, tgt.slice.id
                if not (c.env.get(X) == LN and c.env.get(i) == NAT and X in c.rank and c.bound.get(i) == c.rank[X]):
                    self.bad("write %s[%s] is not known to be in range" % (X, i))
                v, ty = self.ex(val, c)
                if ty != NAT:
                    self.bad("list entry of type %s" % ty, val)
                self.assign(c, X, LN, keeps_length=True)
                return pad + "let %s : List Nat := %s.set %s %s\n" % (T.nm(X), T.nm(X), T.nm(i), self.atom(v)) + nxt(c, ind)
            self.bad("assignment target", tgt)
        if isinstance(s, ast.Expr) and isinstance(s.value, ast.Call) and isinstance(s.value.func, ast.Attribute) \
                and s.value.func.attr == "append" and isinstance(s.value.func.value, ast.Name) \
                and len(s.value.args) == 1 and not s.value.keywords:
            X = s.value.func.value.id
            if c.env.get(X) != LN:
                self.bad("append to %s" % X)
            v, ty = self.ex(s.value.args[0], c)
            if ty != NAT:
                self.bad("appended value of type %s" % ty, s)
            self.assign(c, X, LN)
            return pad + "let %s : List Nat := %s ++ [%s]\n" % (T.nm(X), T.nm(X), v) + nxt(c, ind)
        if isinstance(s, ast.Raise):
            if rest:
                self.bad("statement after raise")
            return pad + ".error .build"
        if isinstance(s, ast.Return):
            if c.loop is not None:
                self.bad("return inside a loop")
            if rest:
                self.bad("statement after return")
            if not (isinstance(s.value, ast.Tuple) and len(s.value.elts) == 2):
                self.bad("return value form", s)
            vals = [self.ex(v, c) for v in s.value.elts]
            if [t for _, t in vals] != [LN, LN]:
                self.bad("return type %s" % [t for _, t in vals])
            return pad + ".ok (%s, %s)" % (vals[0][0], vals[1][0])
        if isinstance(s, ast.If):
            test = self.cond(s.test, c)
            c_then, c_else = c.copy(), c.copy()
            # `if len(X) != N: raise` establishes len(X) == N for what follows
            if isinstance(s.test, ast.Compare) and len(s.test.ops) == 1 and isinstance(s.test.ops[0], ast.NotEq) \
                    and s.body and isinstance(s.body[-1], ast.Raise):
                for a, b in ((s.test.left, s.test.comparators[0]), (s.test.comparators[0], s.test.left)):
                    X = _len_of(a)
                    if X is not None and isinstance(b, ast.Name) and c.env.get(X) == LN and c.env.get(b.id) == NAT:
                        c_else.rank[X] = b.id
            th = self.block(s.body, c_then, ind + 1, nxt)
            el = self.block(s.orelse, c_else, ind + 1, nxt)
            return pad + "if %s then\n%s\n%selse\n%s" % (test, th, pad, el)
        if isinstance(s, ast.For):
            return self.loop(s, rest, c, ind, k)
        self.bad("statement", s)

    def loop(self, s, rest, c, ind, k):
        pad = "  " * ind
        if s.orelse or not isinstance(s.target, ast.Name):
            self.bad("for form", s)
        var = s.target.id
        if var in c.env:
            self.bad("loop variable %s shadows a variable" % var)
        cb = c.copy()
        if _is_shapes_tail(s.iter):
            lst, vty = self.ex(s.iter, c)[0], LN
        elif isinstance(s.iter, ast.Call) and isinstance(s.iter.func, ast.Name) and s.iter.func.id == "range" \
                and len(s.iter.args) == 1 and not s.iter.keywords and isinstance(s.iter.args[0], ast.Name) \
                and c.env.get(s.iter.args[0].id) == NAT:
            lst, vty = "(List.range %s)" % T.nm(s.iter.args[0].id), NAT
            cb.bound[var] = s.iter.args[0].id
        else:
            self.bad("loop is neither `for x in shapes[1:]` nor `for i in range(<nat variable>)`", s.iter)
        if c.depth >= len(self.LOOPS):
            self.bad("loop nesting deeper than 2")
        name = self.prefix + self.LOOPS[c.depth]
        if name in self.used_loops:
            self.bad("two loops at nesting depth %d" % c.depth)
        self.used_loops.add(name)
        assigned, used = set(), set()
        for b in s.body:
            for n in ast.walk(b):
                if isinstance(n, ast.Name):
                    used.add(n.id)
                    if isinstance(n.ctx, ast.Store):
                        assigned.add(n.id)
                if isinstance(n, (ast.Assign, ast.AugAssign)):
                    for t in (n.targets if isinstance(n, ast.Assign) else [n.target]):
                        if isinstance(t, ast.Subscript) and isinstance(t.value, ast.Name):
                            assigned.add(t.value.id)
                if isinstance(n, ast.Call) and isinstance(n.func, ast.Attribute) and isinstance(n.func.value, ast.Name):
                    assigned.add(n.func.value.id)   # method call on a variable (append): treated as an update
        state = [v for v in c.env if v in assigned]
        if not state:
            self.bad("loop without state")
        if "shapes" in used:
            self.bad("`shapes` used inside a loop body")
        params = [v for v in c.env if v not in state and v != "shapes"
                  and (c.env[v] in (NAT, INTT) or v in used)]
        sty = " × ".join(c.env[v] for v in state)
        tup = "(" + ", ".join(T.nm(v) for v in state) + ")"
        cb.env[var] = vty
        cb.loop = state
        cb.depth = c.depth + 1
        body = self.block(s.body, cb, 2, lambda c2, ind2: "  " * ind2 + ".ok " + tup)
        src = ast.unparse(s).split("\n")[0]
        self.defs.append(
            "/-- generated from `%s`: one iteration of `%s` (state `%s`), statement by statement -/\n"
            "def %s %s (st : %s) (%s : %s) :\n    Except C03.Err (%s) :=\n  match st with\n  | %s =>\n%s\n" % (
                self.fn.name, src, tup, name, " ".join("(%s : %s)" % (T.nm(v), c.env[v]) for v in params), sty,
                T.nm(var), vty, sty, tup, body))
        call = "C03.foldE (%s) %s %s" % (" ".join([name] + [T.nm(v) for v in params]), tup, lst)
        return (pad + "match %s with\n" % call + pad + "| .error e => .error e\n" + pad + "| .ok %s =>\n" % tup
                + self.block(rest, c, ind, k))

    # ---- the function ----------------------------------------------------------------------------------
    def translate(self):
        fn = self.fn
        a = fn.args
        if [x.arg for x in a.args] != ["shapes", "axis"] or a.vararg or a.kwarg or a.kwonlyargs or a.posonlyargs or a.defaults:
            self.bad("signature")
        body = list(fn.body)
        if body and isinstance(body[0], ast.Expr) and isinstance(body[0].value, ast.Constant) and isinstance(body[0].value.value, str):
            body = body[1:]
        if not body:
            self.bad("empty body")
        # `if axis is None: return <same function>([[util.prod(shape)] for shape in shapes], <const>)`
        d = body[0]
        ok = isinstance(d, ast.If) and not d.orelse and isinstance(d.test, ast.Compare) and len(d.test.ops) == 1 \
            and isinstance(d.test.ops[0], ast.Is) and isinstance(d.test.left, ast.Name) and d.test.left.id == "axis" \
            and isinstance(d.test.comparators[0], ast.Constant) and d.test.comparators[0].value is None \
            and len(d.body) == 1 and isinstance(d.body[0], ast.Return) and isinstance(d.body[0].value, ast.Call)
        if not ok:
            self.bad("first statement is not `if axis is None: return <call>`", d)
        call = d.body[0].value
        if not (isinstance(call.func, ast.Name) and call.func.id == fn.name and len(call.args) == 2 and not call.keywords):
            self.bad("the `axis is None` branch does not call %s(<shapes>, <axis>)" % fn.name, call)
        lc, const = call.args
        if not (isinstance(const, ast.Constant) and isinstance(const.value, int) and not isinstance(const.value, bool)):
            self.bad("axis argument of the recursive call is not an int constant", const)
        if not (isinstance(lc, ast.ListComp) and len(lc.generators) == 1 and not lc.generators[0].ifs
                and not lc.generators[0].is_async and isinstance(lc.generators[0].target, ast.Name)
                and isinstance(lc.generators[0].iter, ast.Name) and lc.generators[0].iter.id == "shapes"):
            self.bad("shapes argument of the recursive call is not `[.. for x in shapes]`", lc)
        v = lc.generators[0].target.id
        e = lc.elt
        if not (isinstance(e, ast.List) and len(e.elts) == 1 and isinstance(e.elts[0], ast.Call) and not e.elts[0].keywords
                and isinstance(e.elts[0].func, ast.Attribute) and e.elts[0].func.attr == "prod"
                and isinstance(e.elts[0].func.value, ast.Name) and e.elts[0].func.value.id == "util"
                and len(e.elts[0].args) == 1 and isinstance(e.elts[0].args[0], ast.Name) and e.elts[0].args[0].id == v):
            self.bad("flattened shape is not `[util.prod(%s)]`" % v, e)
        for n in body[1:]:
            for m in ast.walk(n):
                if isinstance(m, ast.Constant) and m.value is None:
                    self.bad("`None` after the `axis is None` dispatch")
        c = _Ctx({"shapes": LLN, "axis": INTT})

        def falls_off(c2, ind2):
            self.bad("control can reach the end of the function without `return`")
        text = self.block(body[1:], c, 1, falls_off)
        P = self.prefix
        rt = "Except C03.Err (List Nat × List Nat)"
        out = list(self.defs)
        out.append("/-- generated from `%s`: the body after the `axis is None` dispatch (`axis` is an int), statement by\n"
                   "    statement in source order; every Python exception is `.error .build` -/\n"
                   "def %sParamsAx (shapes : List (List Nat)) (axis : Int) : %s :=\n%s\n" % (fn.name, P, rt, text))
        out.append("/-- generated from `%s`: `if axis is None: return %s([[util.prod(%s)] for %s in shapes], %d)` -/\n"
                   "def %sParams (shapes : List (List Nat)) (axis : Option Int) : %s :=\n  match axis with\n"
                   "  | none => %sParamsAx (shapes.map fun %s => [C03.sprod %s]) (%d : Int)\n"
                   "  | some axis => %sParamsAx shapes axis\n" % (
                       fn.name, fn.name, v, v, const.value, P, rt, P, T.nm(v), T.nm(v), const.value, P))
        return out


def _guard(tree, meth, attr, lean, out):
    """`Linop._check_ishape/_check_oshape`: `for a, b in zip(<array>.shape, self.<attr>): if COND: raise`"""
    fn = T.find_function(tree, "Linop." + meth)

    def bad(what):
        raise T.Unsupported("Linop.%s: %s" % (meth, what))
    args = [a.arg for a in fn.args.args]
    if len(args) != 2 or args[0] != "self" or fn.args.vararg or fn.args.kwarg or fn.args.kwonlyargs or fn.args.defaults:
        bad("signature %s" % args)
    body = list(fn.body)
    if body and isinstance(body[0], ast.Expr) and isinstance(body[0].value, ast.Constant) and isinstance(body[0].value.value, str):
        body = body[1:]
    if len(body) != 1 or not isinstance(body[0], ast.For) or body[0].orelse:
        bad("body is not a single `for` loop")
    f = body[0]
    if not (isinstance(f.target, ast.Tuple) and len(f.target.elts) == 2 and all(isinstance(e, ast.Name) for e in f.target.elts)):
        bad("loop target is not a pair of names")
    a, b = [e.id for e in f.target.elts]
    if a == b:
        bad("loop target names coincide")
    it = f.iter
    if not (isinstance(it, ast.Call) and isinstance(it.func, ast.Name) and it.func.id == "zip" and len(it.args) == 2 and not it.keywords):
        bad("loop is not over zip(_, _)")
    x, y = it.args
    if not (isinstance(x, ast.Attribute) and x.attr == "shape" and isinstance(x.value, ast.Name) and x.value.id == args[1]):
        bad("first zip argument is not %s.shape" % args[1])
    if not (isinstance(y, ast.Attribute) and y.attr == attr and isinstance(y.value, ast.Name) and y.value.id == "self"):
        bad("second zip argument is not self.%s" % attr)
    if len(f.body) != 1 or not isinstance(f.body[0], ast.If) or f.body[0].orelse \
            or len(f.body[0].body) != 1 or not isinstance(f.body[0].body[0], ast.Raise):
        bad("loop body is not `if COND: raise`")
    cond = T.Expr({a: T.INT, b: T.INT}).cond(N.canon_int_test(f.body[0].test))
    out.append("/-- generated from `Linop.%s`: the test that raises for one pair `(%s, %s)` of `zip(%s.shape, self.%s)` -/\n"
               "def %sRejects (%s %s : Int) : Bool := decide %s\n" % (meth, a, b, args[1], attr, lean, T.nm(a), T.nm(b), cond))
    out.append("/-- generated from `Linop.%s`: `for %s, %s in zip(%s.shape, self.%s): if ..: raise` — accepted iff no pair is\n"
               "    rejected (`zip` stops at the shorter list) -/\n"
               "def %s (got adv : List Int) : Bool := (List.zip got adv).all fun p => !(%sRejects p.1 p.2)\n" % (
                   meth, a, b, args[1], attr, lean, lean))



# ---------------------------------------------------------------------------------------------------------
# T4 (class `_Apply`): the `_apply` bodies of Add / Compose / Hstack / Vstack / Diag and `Linop.apply`,
# statement by statement -> lean/SigpyVerif/Gen/LinopApply.lean, written in the numpy primitives of
# Model/C03Np.lean (`npGetItem`, `npSetItem`, `npReshape`, `npRavel`, `npEmpty`, `npAdd`, `npRepeat`, `pyIndex`).
#
#   * every statement is translated in source order; a fallible sub-expression (`linop(..)`, `x[..]`, `.reshape`,
#     `l[i]`, `%`, `a + b` on arrays) is hoisted, in evaluation order, into a `match … with | .error e => .error e`
#   * `if c: A else: B` whose branches only assign becomes ONE expression returning the variables both branches
#     define (or that existed before), with the join of their types (`None`/int -> `Option Nat`, `0`/array -> PyAcc);
#     a variable assigned in one branch only is unknown afterwards (its use is Unsupported)
#   * `self.X is None` narrows `self.X` to an int in the other branch
#   * `for [n,] linop in [enumerate(]self.linops[)] / self.linops[::-1]` -> `C03.foldE <step> st <list>` with the
#     variables the body re-assigns as state; `output = 0` before such a loop is the accumulator `PyAcc`
#   * `with backend.get_device(input):` / `device = backend.get_device(input); xp = device.xp; with device:` are
#     transparent; the dtype widening `if not xp.can_cast(a.dtype, b.dtype): b = b.astype(xp.result_type(..))` has
#     no effect on exact scalars and is recognised literally (anything else in its place is Unsupported)
#   * `try: BODY except Exception as e: raise RuntimeError(..) from e` -> every error of BODY becomes `.apply`
# Anything else raises T.Unsupported (broken obligation).
# ---------------------------------------------------------------------------------------------------------
OPTNAT, OPTINT, NONE = "Option Nat", "Option Int", "NoneType"
ARR, ACC, OP, LOP = "C03.NDArr α", "C03.PyAcc α", "C03.Op α", "List (C03.Op α)"
SLICE, SLC, DEVICE, XP, UNIT = "C03.PySlice", "List C03.PySlice", "<device>", "<xp>", "Unit"
SELF_ATTRS = {"linops": LOP, "nops": NAT, "axis": OPTINT, "iaxis": OPTINT, "oaxis": OPTINT, "indices": LN,
              "iindices": LN, "oindices": LN, "oshape": LN, "ishape": LN}
TCLASS = "{α : Type} [Add α] [Zero α]"


def _join(a, b):
    if a == b:
        return a
    s = {a, b}
    if s <= {NONE, NAT, OPTNAT}:
        return OPTNAT
    if s <= {ACC, ARR}:
        return ACC
    raise T.Unsupported("a variable has type %s in one branch and %s in the other" % (a, b))


def _coerce(v, t, want):
    if t == want:
        return v
    if want == OPTNAT and t == NONE:
        return "none"
    if want == OPTNAT and t == NAT:
        return "(some %s)" % v
    if want == ACC and t == ARR:
        return "(some %s)" % v
    raise T.Unsupported("cannot use a %s as %s: %s" % (t, want, v))


def _is_get_device(e):
    return isinstance(e, ast.Call) and isinstance(e.func, ast.Attribute) and e.func.attr == "get_device" \
        and isinstance(e.func.value, ast.Name) and e.func.value.id == "backend" and len(e.args) == 1 \
        and not e.keywords and isinstance(e.args[0], ast.Name) and e.args[0].id == "input"


def _assigned(stmts):
    out = []
    for b in stmts:
        for n in ast.walk(b):
            t = None
            if isinstance(n, ast.Name) and isinstance(n.ctx, ast.Store):
                t = n.id
            if isinstance(n, (ast.Assign, ast.AugAssign)):
                for tg in (n.targets if isinstance(n, ast.Assign) else [n.target]):
                    if isinstance(tg, ast.Subscript) and isinstance(tg.value, ast.Name) and tg.value.id not in out:
                        out.append(tg.value.id)
            if t is not None and t not in out:
                out.append(t)
    return out


class _ACtx:
    def __init__(self, env=None, narrowed=None, const0=None, in_loop=False):
        self.env = dict(env or {})           # python name -> (lean text, type)
        self.narrowed = dict(narrowed or {})  # self attribute -> (lean text, type)
        self.const0 = set(const0 or ())
        self.in_loop = in_loop

    def copy(self):
        return _ACtx(self.env, self.narrowed, self.const0, self.in_loop)


class _Apply:
    def __init__(self, fn, what, lean, self_is_op=False):
        self.fn, self.what, self.lean, self.self_is_op = fn, what, lean, self_is_op
        self.defs, self.n, self.nloops = [], 0, 0
        self.attrs = []
        if not self_is_op:
            class V(ast.NodeVisitor):
                def visit_Attribute(v, n):
                    if isinstance(n.value, ast.Name) and n.value.id == "self":
                        if n.attr not in SELF_ATTRS:
                            raise T.Unsupported("%s: self.%s is not a modelled attribute" % (what, n.attr))
                        if n.attr not in self.attrs:
                            self.attrs.append(n.attr)
                    v.generic_visit(n)
            V().visit(fn)
            self.attrs = [a for a in SELF_ATTRS if a in self.attrs]   # canonical order: independent of the statement order

    def bad(self, what, node=None):
        raise T.Unsupported("%s: %s%s" % (self.what, what, "" if node is None else ": " + ast.dump(node)[:100]))

    def fresh(self):
        self.n += 1
        return "t%d" % self.n

    def params(self):
        if self.self_is_op:
            return [("self", OP), ("input", ARR)]
        return [("self_" + a, SELF_ATTRS[a]) for a in self.attrs] + [("input", ARR)]

    def sig(self):
        return " ".join("(%s : %s)" % (T.nm(n), t) for n, t in self.params())

    def args(self):
        return " ".join(T.nm(n) for n, _ in self.params())

    @staticmethod
    def emit(binds, pad):
        out = ""
        for b in binds:
            if b[0] == "E":
                out += pad + "C03.bindE (%s) fun %s =>\n" % (b[1], b[2])
            elif b[0] == "O":
                out += pad + "C03.bindO (%s) fun %s =>  -- IndexError\n" % (b[1], b[2])
            elif b[0] == "Z":
                out += pad + "if %s = 0 then .error .apply  -- ZeroDivisionError\n%selse\n" % (b[1], pad)
        return out

    def proj(self, names, types, c2):
        """bind a tuple of joined variables to ONE fresh name; the variables are its projections"""
        if not names:
            return "_"
        if len(names) == 1:
            c2.env[names[0]] = (T.nm(names[0]), types[0])
            return T.nm(names[0])
        j = "j%d" % (self.n + 1)
        self.n += 1
        for i, (n, t) in enumerate(zip(names, types)):
            path = ".2" * i + (".1" if i < len(names) - 1 else "")
            c2.env[n] = ("%s%s" % (j, path), t)
        return j

    # ---- expressions: (binds, lean atom, type) ---------------------------------------------------------
    def self_attr(self, attr, c):
        if attr in c.narrowed:
            return c.narrowed[attr]
        return ("self_" + attr, SELF_ATTRS[attr])

    def ex(self, e, c):
        if isinstance(e, ast.Constant):
            if e.value is None:
                return [], "none", NONE
            if isinstance(e.value, bool) or not isinstance(e.value, int) or e.value < 0:
                self.bad("constant", e)
            return [], "(%d : Nat)" % e.value, NAT
        if isinstance(e, ast.Name):
            if e.id not in c.env:
                self.bad("unknown (or only conditionally assigned) name %s" % e.id)
            v, t = c.env[e.id]
            if t in (DEVICE, XP):
                self.bad("use of %s as a value" % e.id)
            return [], v, t
        if isinstance(e, ast.Attribute):
            if isinstance(e.value, ast.Name) and e.value.id == "self" and not self.self_is_op:
                v, t = self.self_attr(e.attr, c)
                return [], v, t
            B, v, t = self.ex(e.value, c)
            if t == OP and e.attr in ("ishape", "oshape"):
                return B, "%s.%s" % (v, e.attr), LN
            if t == ARR and e.attr == "shape":
                return B, "%s.shape" % v, LN
            self.bad("attribute", e)
        if isinstance(e, ast.List):
            B, vs = [], []
            for x in e.elts:
                b, v, t = self.ex(x, c)
                if t != SLICE:
                    self.bad("list literal with entries that are not slices", e)
                B += b
                vs.append(v)
            return B, "[" + ", ".join(vs) + "]", SLC
        if isinstance(e, ast.UnaryOp) and isinstance(e.op, ast.USub):
            B, v, t = self.ex(e.operand, c)
            return B, "(-%s)" % _to_int(v, t), INTT
        if isinstance(e, ast.BinOp) and isinstance(e.op, (ast.Add, ast.Sub)):
            r = self.linear(N.lin_terms(e), c)
            if r is not None:
                B, terms = r
                v, t = _lin_sum(terms)
                return B, v, t
        if isinstance(e, ast.BinOp):
            B1, a, ta = self.ex(e.left, c)
            B2, b, tb = self.ex(e.right, c)
            B = B1 + B2
            if isinstance(e.op, ast.Add):
                if ta == SLC and tb == SLC:
                    return B, "(%s ++ %s)" % (a, b), SLC
                if ta in (ACC, ARR) and tb == ARR:
                    t = self.fresh()
                    return B + [("E", "C03.npAdd %s %s" % (_coerce(a, ta, ACC), b), t)], t, ARR
                if ta == NAT and tb == NAT:
                    return B, "(%s + %s)" % (a, b), NAT
                return B, "(%s + %s)" % (_to_int(a, ta), _to_int(b, tb)), INTT
            if isinstance(e.op, ast.Mult):
                if ta == SLC and tb in (NAT, INTT):
                    return B, "(C03.npRepeat %s %s)" % (a, _to_int(b, tb)), SLC
                if tb == SLC and ta in (NAT, INTT):      # `k * [..]` is `[..] * k`
                    return B, "(C03.npRepeat %s %s)" % (b, _to_int(a, ta)), SLC
                if ta == NAT and tb == NAT:
                    return B, "(%s * %s)" % (a, b), NAT
                return B, "(%s * %s)" % (_to_int(a, ta), _to_int(b, tb)), INTT
            if isinstance(e.op, ast.Sub):
                return B, "(%s - %s)" % (_to_int(a, ta), _to_int(b, tb)), INTT
            if isinstance(e.op, ast.Mod):
                a, b = _to_int(a, ta), _to_int(b, tb)
                return B + [("Z", b)], "(pyMod %s %s)" % (a, b), INTT
            self.bad("binary operator", e)
        if isinstance(e, ast.Call):
            return self.call(e, c)
        if isinstance(e, ast.Subscript):
            B, v, t = self.ex(e.value, c)
            if t == ARR:
                if isinstance(e.slice, ast.Slice):
                    b2, rng = self.rng(e.slice.lower, e.slice.upper, e.slice.step, c)
                    r = self.fresh()
                    return B + b2 + [("E", "C03.npGetItem %s [%s]" % (v, rng), r)], r, ARR
                b2, i, ti = self.ex(e.slice, c)
                if ti == SLC:
                    r = self.fresh()
                    return B + b2 + [("E", "C03.npGetItem %s %s" % (v, i), r)], r, ARR
                self.bad("array index", e)
            if t == LN and not isinstance(e.slice, ast.Slice):
                b2, i, ti = self.ex(e.slice, c)
                if ti in (NAT, INTT):
                    r = self.fresh()
                    return B + b2 + [("O", "C03.pyIndex %s %s" % (v, _to_int(i, ti)), r)], r, NAT
            if t == LOP and isinstance(e.slice, ast.Slice) and e.slice.lower is None and e.slice.upper is None \
                    and isinstance(e.slice.step, ast.UnaryOp) and isinstance(e.slice.step.op, ast.USub) \
                    and isinstance(e.slice.step.operand, ast.Constant) and e.slice.step.operand.value == 1:
                return B, "%s.reverse" % v, LOP
            self.bad("subscript", e)
        self.bad("expression", e)

    def linear(self, lin, c):
        """the leaves of an integer sum, translated in source order (so fallible leaves are bound in evaluation order);
        None (and no fresh name used up) when a leaf is not a number: `+` on lists / arrays is not commutative"""
        n0, B, terms = self.n, [], []
        for sg, leaf in lin:
            if N._is_int_const(leaf):
                terms.append((sg, None, leaf.value))
                continue
            b, v, t = self.ex(leaf, c)
            if t not in (NAT, INTT):
                self.n = n0
                return None
            B += b
            terms.append((sg, ast.unparse(leaf), (v, t)))
        return B, terms

    def rng(self, lo, hi, step, c):
        """`slice(lo, hi)` / `lo:hi` -> PySlice.range"""
        if step is not None and not (isinstance(step, ast.Constant) and step.value is None):
            self.bad("slice step")
        if lo is None or hi is None:
            self.bad("slice with an omitted bound (only `start:end` with variables is modelled)")
        b1, a, ta = self.ex(lo, c)
        b2, b, tb = self.ex(hi, c)
        if ta != NAT or tb not in (NAT, NONE, OPTNAT):
            self.bad("slice bounds of types %s, %s" % (ta, tb))
        return b1 + b2, "C03.PySlice.range %s %s" % (a, _coerce(b, tb, OPTNAT))

    def call(self, e, c):
        f = e.func
        if isinstance(f, ast.Name) and not e.keywords:
            if f.id in c.env and c.env[f.id][1] == OP and len(e.args) == 1:      # linop(x): Linop.__call__
                B, v, t = self.ex(e.args[0], c)
                if t != ARR:
                    self.bad("operator applied to a %s" % t, e)
                r = self.fresh()
                return B + [("E", "linopCall %s %s" % (c.env[f.id][0], v), r)], r, ARR
            if f.id == "len" and len(e.args) == 1:
                B, v, t = self.ex(e.args[0], c)
                if t in (LN, LOP, SLC):
                    return B, "%s.length" % v, NAT
            if f.id in ("tuple", "list") and len(e.args) == 1:
                B, v, t = self.ex(e.args[0], c)
                if t in (SLC, LN):
                    return B, v, t
            if f.id == "slice":
                none = lambda z: isinstance(z, ast.Constant) and z.value is None
                if 1 <= len(e.args) <= 3 and all(none(z) for z in e.args):   # slice(None) / slice(None, None[, None])
                    return [], "C03.PySlice.all", SLICE
                if len(e.args) == 2 or (len(e.args) == 3 and none(e.args[2])):
                    B, r = self.rng(e.args[0], e.args[1], None, c)
                    return B, "(%s)" % r, SLICE
            self.bad("call", e)
        if isinstance(f, ast.Attribute):
            if self.self_is_op and isinstance(f.value, ast.Name) and f.value.id == "self" and f.attr == "_apply" \
                    and len(e.args) == 1 and not e.keywords:
                B, v, t = self.ex(e.args[0], c)
                if t != ARR:
                    self.bad("_apply of a %s" % t)
                r = self.fresh()
                return B + [("E", "self.app %s" % v, r)], r, ARR
            if isinstance(f.value, ast.Name) and c.env.get(f.value.id, (None, None))[1] == XP:
                dt = lambda z: isinstance(z, ast.Attribute) and z.attr == "dtype" and isinstance(z.value, ast.Name) \
                    and c.env.get(z.value.id, (0, 0))[1] == ARR
                if f.attr == "empty" and ((len(e.args) == 1 and len(e.keywords) == 1 and e.keywords[0].arg == "dtype" and dt(e.keywords[0].value))
                                          or (len(e.args) == 2 and not e.keywords and dt(e.args[1]))):
                    B, v, t = self.ex(e.args[0], c)   # the dtype has no effect on exact scalars
                    if t == LN:
                        return B, "(C03.npEmpty %s)" % v, ARR
                if f.attr == "ravel" and len(e.args) == 1 and not e.keywords:          # xp.ravel(a) is a.ravel()
                    B, v, t = self.ex(e.args[0], c)
                    if t == ARR:
                        return B, "(C03.npRavel %s)" % v, ARR
                if f.attr == "reshape" and len(e.args) == 2 and not e.keywords:        # xp.reshape(a, s) is a.reshape(s)
                    B, v, t = self.ex(e.args[0], c)
                    b2, sh, ts = self.ex(e.args[1], c)
                    if t == ARR and ts == LN:
                        r = self.fresh()
                        return B + b2 + [("E", "C03.npReshape %s %s" % (v, sh), r)], r, ARR
                self.bad("xp call", e)
            B, v, t = self.ex(f.value, c)
            if t == ARR and f.attr == "reshape" and len(e.args) == 1 and not e.keywords:
                b2, s, ts = self.ex(e.args[0], c)
                if ts == LN:
                    r = self.fresh()
                    return B + b2 + [("E", "C03.npReshape %s %s" % (v, s), r)], r, ARR
            if t == ARR and f.attr == "ravel" and not e.args and not e.keywords:
                return B, "(C03.npRavel %s)" % v, ARR
            if t == ARR and f.attr == "reshape" and len(e.args) == 1 and not e.keywords and isinstance(e.args[0], ast.UnaryOp) \
                    and isinstance(e.args[0].op, ast.USub) and N._is_int_const(e.args[0].operand) and e.args[0].operand.value == 1:
                return B, "(C03.npRavel %s)" % v, ARR      # a.reshape(-1) is a.ravel()
        self.bad("call", e)

    def cond(self, e, c):
        """(binds, Prop text)"""
        if isinstance(e, ast.UnaryOp) and isinstance(e.op, ast.Not):
            B, p = self.cond(e.operand, c)
            return B, "(¬ %s)" % p
        if isinstance(e, ast.Compare) and len(e.ops) == 1 and type(e.ops[0]) in _SYM:
            r = self.linear(N.lin_terms(e.left) + N.lin_terms(e.comparators[0], -1), c)
            if r is not None:
                B, terms = r
                (a, ta), sym, (b, tb) = _lin_cmp(terms, e.ops[0])
                if ta == tb:
                    return B, "%s %s %s" % (a, sym, b)
                return B, "%s %s %s" % (_to_int(a, ta), sym, _to_int(b, tb))
        if isinstance(e, ast.Compare) and len(e.ops) == 1:
            B1, a, ta = self.ex(e.left, c)
            B2, b, tb = self.ex(e.comparators[0], c)
            sym = _SYM.get(type(e.ops[0]))
            if sym is None:
                self.bad("comparison operator", e)
            if ta == tb and (ta in (NAT, INTT) or (ta == LN and sym in ("=", "≠"))):
                return B1 + B2, "%s %s %s" % (a, sym, b)
            if {ta, tb} == {NAT, INTT}:
                return B1 + B2, "%s %s %s" % (_to_int(a, ta), sym, _to_int(b, tb))
            self.bad("comparison of %s with %s" % (ta, tb), e)
        self.bad("condition", e)

    # ---- statements ----------------------------------------------------------------------------------------
    def is_can_cast(self, s, c):
        """`if not xp.can_cast(A.dtype, B.dtype): B = B.astype(xp.result_type(B.dtype, A.dtype))`"""
        try:
            t = s.test
            assert isinstance(t, ast.UnaryOp) and isinstance(t.op, ast.Not) and not s.orelse and len(s.body) == 1
            cc = t.operand
            assert isinstance(cc, ast.Call) and isinstance(cc.func, ast.Attribute) and cc.func.attr == "can_cast"
            assert isinstance(cc.func.value, ast.Name) and c.env.get(cc.func.value.id, (0, 0))[1] == XP
            xpn = cc.func.value.id
            a, b = cc.args
            assert not cc.keywords
            for z in (a, b):
                assert isinstance(z, ast.Attribute) and z.attr == "dtype" and isinstance(z.value, ast.Name)
                assert c.env.get(z.value.id, (0, 0))[1] == ARR
            A, Bn = a.value.id, b.value.id
            asg = s.body[0]
            assert isinstance(asg, ast.Assign) and len(asg.targets) == 1 and isinstance(asg.targets[0], ast.Name)
            assert asg.targets[0].id == Bn
            want = "%s.astype(%s.result_type(%s.dtype, %s.dtype))" % (Bn, xpn, Bn, A)
            assert ast.unparse(asg.value) == want
            return True
        except (AssertionError, ValueError):
            return False

    def block(self, stmts, c, ind, k):
        if not stmts:
            return k(c, ind)
        s, rest = stmts[0], stmts[1:]
        pad = "  " * ind
        nxt = lambda c2, ind2: self.block(rest, c2, ind2, k)
        if isinstance(s, ast.Expr) and isinstance(s.value, ast.Constant) and isinstance(s.value.value, str):
            return self.block(rest, c, ind, k)
        if isinstance(s, ast.With):
            if len(s.items) != 1 or s.items[0].optional_vars is not None:
                self.bad("with form", s)
            ce = s.items[0].context_expr
            if not (_is_get_device(ce) or (isinstance(ce, ast.Name) and c.env.get(ce.id, (0, 0))[1] == DEVICE)):
                self.bad("with context is not the device of the input", ce)
            return self.block(list(s.body) + list(rest), c, ind, k)
        if isinstance(s, ast.Try):
            return self.try_(s, rest, c, ind, k)
        if isinstance(s, ast.Assign):
            if len(s.targets) != 1:
                self.bad("chained assignment", s)
            tgt, val = s.targets[0], s.value
            if isinstance(tgt, ast.Name):
                if tgt.id in ("input", "self") or c.env.get(tgt.id, (0, 0))[1] in (DEVICE, XP, OP):
                    self.bad("assignment to %s" % tgt.id)
                if _is_get_device(val):
                    c.env[tgt.id] = (None, DEVICE)
                    return nxt(c, ind)
                if isinstance(val, ast.Attribute) and val.attr == "xp" and isinstance(val.value, ast.Name) \
                        and c.env.get(val.value.id, (0, 0))[1] == DEVICE:
                    c.env[tgt.id] = (None, XP)
                    return nxt(c, ind)
                B, v, t = self.ex(val, c)
                if t in (SLICE, OP, LOP):
                    self.bad("variable of type %s" % t, s)
                c.const0.discard(tgt.id)
                if isinstance(val, ast.Constant) and val.value == 0 and not isinstance(val.value, bool):
                    c.const0.add(tgt.id)
                name = T.nm(tgt.id)
                c.env[tgt.id] = (name, t)
                if t == NONE:
                    return self.emit(B, pad) + nxt(c, ind)
                return self.emit(B, pad) + pad + "let %s : %s := %s\n" % (name, t, v) + nxt(c, ind)
            if isinstance(tgt, ast.Subscript) and isinstance(tgt.value, ast.Name):
                X = tgt.value.id
                if c.env.get(X, (0, 0))[1] != ARR:
                    self.bad("item assignment to %s" % X, s)
                if isinstance(tgt.slice, ast.Slice):
                    B1, rng = self.rng(tgt.slice.lower, tgt.slice.upper, tgt.slice.step, c)
                    idx = "[%s]" % rng
                else:
                    B1, idx, ti = self.ex(tgt.slice, c)
                    if ti != SLC:
                        self.bad("item assignment index of type %s" % ti, s)
                B2, v, t = self.ex(val, c)
                if t != ARR:
                    self.bad("assigned value of type %s" % t, s)
                name = T.nm(X)
                B = B1 + B2 + [("E", "C03.npSetItem %s %s %s" % (c.env[X][0], idx, v), name)]
                c.env[X] = (name, ARR)
                return self.emit(B, pad) + nxt(c, ind)
            self.bad("assignment target", tgt)
        if isinstance(s, ast.Expr) and isinstance(s.value, ast.Call) and self.self_is_op:
            f = s.value.func
            if isinstance(f, ast.Attribute) and isinstance(f.value, ast.Name) and f.value.id == "self" \
                    and f.attr in ("_check_ishape", "_check_oshape") and len(s.value.args) == 1 and not s.value.keywords:
                B, v, t = self.ex(s.value.args[0], c)
                if t != ARR:
                    self.bad("%s of a %s" % (f.attr, t))
                g, sh = ("checkIshape", "ishape") if f.attr == "_check_ishape" else ("checkOshape", "oshape")
                return (self.emit(B, pad) + pad + "if %s (%s.shape.map Int.ofNat) (self.%s.map Int.ofNat) = false then .error .apply  -- %s raises\n"
                        % (g, v, sh, f.attr) + pad + "else\n" + nxt(c, ind))
        if isinstance(s, ast.Raise):
            self.bad("raise outside the recognised `except` clause")
        if isinstance(s, ast.Return):
            if c.in_loop:
                self.bad("return inside a loop")
            if rest:
                self.bad("statement after return")
            if s.value is None:
                self.bad("bare return")
            B, v, t = self.ex(s.value, c)
            if t == ARR:
                return self.emit(B, pad) + pad + ".ok %s" % v
            if t == ACC:
                return self.emit(B, pad) + pad + "C03.accResult %s" % v
            self.bad("return of a %s" % t)
        if isinstance(s, ast.If):
            return self.if_(s, rest, c, ind, k)
        if isinstance(s, ast.For):
            return self.loop(s, rest, c, ind, k)
        self.bad("statement", s)

    def sub(self, stmts, c, ind, names):
        """translate `stmts` as an expression returning the final values of `names`; -> (text with placeholders, finals)"""
        finals = []

        def kk(c2, ind2):
            finals.append((c2, ind2))
            return "\0%d\0" % (len(finals) - 1)
        for st in stmts:
            for n in ast.walk(st):
                if isinstance(n, (ast.Return, ast.Raise)):
                    self.bad("return / raise inside a branch", n)
        return self.block(stmts, c, ind, kk), finals

    def fill(self, text, finals, names, types):
        for i, (c2, ind2) in enumerate(finals):
            vals = [_coerce(c2.env[n][0], c2.env[n][1], t) for n, t in zip(names, types)]
            tup = "()" if not vals else vals[0] if len(vals) == 1 else "(" + ", ".join(vals) + ")"
            text = text.replace("\0%d\0" % i, "  " * ind2 + ".ok " + tup)
        return text

    def joined(self, branches, names, c, ind, rest, k, head):
        """branches: list of (text, finals); emits `match (head …) with | .ok names => rest`"""
        pad = "  " * ind
        types = []
        for n in names:
            t = None
            for _, finals in branches:
                for c2, _ in finals:
                    t = c2.env[n][1] if t is None else _join(t, c2.env[n][1])
            types.append(t)
        ty = "Unit" if not names else " × ".join(types)
        body = head([self.fill(txt, finals, names, types) for txt, finals in branches])
        c2 = c.copy()
        for n, t in zip(names, types):
            c2.env[n] = (T.nm(n), t)
            c2.const0.discard(n)
        pat = self.proj(names, types, c2)
        return (pad + "C03.bindE (show Except C03.Err (%s) from\n" % ty + body + ") fun %s =>\n" % pat
                + self.block(rest, c2, ind, k))

    def if_(self, s, rest, c, ind, k):
        pad = "  " * ind
        if self.is_can_cast(s, c):
            return (pad + "-- dtype widening (`%s`): no effect on exact scalars\n" % ast.unparse(s.test)) + self.block(rest, c, ind, k)
        a_then, a_else = _assigned(s.body), _assigned(s.orelse)
        names = [n for n in a_then + [m for m in a_else if m not in a_then]
                 if (n in a_then and n in a_else) or n in c.env]
        c_then, c_else = c.copy(), c.copy()
        # `self.X is None`
        t = s.test
        if isinstance(t, ast.Compare) and len(t.ops) == 1 and isinstance(t.ops[0], (ast.Is, ast.IsNot)) \
                and isinstance(t.comparators[0], ast.Constant) and t.comparators[0].value is None:
            X = t.left
            if not (isinstance(X, ast.Attribute) and isinstance(X.value, ast.Name) and X.value.id == "self"
                    and not self.self_is_op and SELF_ATTRS.get(X.attr) == OPTINT and X.attr not in c.narrowed):
                self.bad("`is None` test of something that is not an optional-int attribute of self", t)
            v = "self_%s_v" % X.attr
            none_c, some_c = (c_then, c_else) if isinstance(t.ops[0], ast.Is) else (c_else, c_then)
            some_c.narrowed[X.attr] = (v, INTT)
            none_body, some_body = (s.body, s.orelse) if isinstance(t.ops[0], ast.Is) else (s.orelse, s.body)
            bn = self.sub(none_body, none_c, ind + 2, names)
            bs = self.sub(some_body, some_c, ind + 2, names)
            p1 = "  " * (ind + 1)
            head = lambda tx: (p1 + "match self_%s with\n" % X.attr + p1 + "| none =>\n" + tx[0] + "\n"
                               + p1 + "| some %s =>\n" % v + tx[1])
            return self.joined([bn, bs], names, c, ind, rest, k, head)
        B, p = self.cond(s.test, c)
        bt = self.sub(s.body, c_then, ind + 2, names)
        be = self.sub(s.orelse, c_else, ind + 2, names)
        p1 = "  " * (ind + 1)
        head = lambda tx: (p1 + "if %s then\n" % p + tx[0] + "\n" + p1 + "else\n" + tx[1])
        return self.emit(B, pad) + self.joined([bt, be], names, c, ind, rest, k, head)

    def try_(self, s, rest, c, ind, k):
        if s.orelse or s.finalbody or len(s.handlers) != 1:
            self.bad("try form", s)
        h = s.handlers[0]
        ok = isinstance(h.type, ast.Name) and h.type.id == "Exception" and len(h.body) == 1 \
            and isinstance(h.body[0], ast.Raise) and isinstance(h.body[0].exc, ast.Call) \
            and isinstance(h.body[0].exc.func, ast.Name) and h.body[0].exc.func.id == "RuntimeError"
        if not ok:
            self.bad("except clause is not `except Exception [as e]: raise RuntimeError(..)`", h)
        names = [n for n in _assigned(s.body)]
        txt, finals = self.sub(s.body, c.copy(), ind + 1, names)
        pad = "  " * ind
        types = [None] * len(names)
        for c2, _ in finals:
            types = [c2.env[n][1] if t is None else _join(t, c2.env[n][1]) for n, t in zip(names, types)]
        ty = "Unit" if not names else " × ".join(types)
        c2 = c.copy()
        pat = self.proj(names, types, c2)
        return (pad + "C03.tryE (show Except C03.Err (%s) from\n" % ty + self.fill(txt, finals, names, types)
                + ") fun %s =>  -- except Exception: raise RuntimeError\n" % pat + self.block(rest, c2, ind, k))

    def loop(self, s, rest, c, ind, k):
        pad = "  " * ind
        if s.orelse or c.in_loop:
            self.bad("for form (else clause or nested loop)", s)
        it = s.iter
        enum = isinstance(it, ast.Call) and isinstance(it.func, ast.Name) and it.func.id == "enumerate" \
            and len(it.args) == 1 and not it.keywords
        B, lst, tl = self.ex(it.args[0] if enum else it, c)
        if tl != LOP or B:
            self.bad("loop is not over (an enumeration of) the operator list", it)
        cb = c.copy()
        cb.in_loop = True
        if enum:
            if not (isinstance(s.target, ast.Tuple) and len(s.target.elts) == 2 and all(isinstance(x, ast.Name) for x in s.target.elts)):
                self.bad("loop target", s.target)
            nvar, lvar = [x.id for x in s.target.elts]
            if nvar == lvar or nvar in c.env:
                self.bad("loop target names")
            cb.env[nvar] = (T.nm(nvar), NAT)
            ety, lst = "Nat × " + OP, "(C03.pyEnumerate %s)" % lst
            elets = "    let %s : Nat := p.1\n    let %s : %s := p.2\n" % (T.nm(nvar), T.nm(lvar), OP)
        else:
            if not isinstance(s.target, ast.Name):
                self.bad("loop target", s.target)
            lvar = s.target.id
            ety = OP
            elets = "    let %s : %s := p\n" % (T.nm(lvar), OP)
        if lvar in c.env:
            self.bad("loop variable shadows %s" % lvar)
        cb.env[lvar] = (T.nm(lvar), OP)
        assigned = _assigned(s.body)
        state = [v for v in c.env if v in assigned]
        if len(state) != 1:
            self.bad("loop state is not exactly one variable: %s" % state)
        for v in state:           # `output = 0` before the loop: the accumulator
            if v in c.const0:
                c.env[v] = ("(none : %s)" % ACC, ACC)
                cb.env[v] = (T.nm(v), ACC)
            else:
                cb.env[v] = (T.nm(v), c.env[v][1])
            cb.const0.discard(v)
        stypes = [cb.env[v][1] for v in state]
        used = {n.id for b in s.body for n in ast.walk(b) if isinstance(n, ast.Name)}
        extra = [v for v in c.env if v not in state and v in used and v not in ("input", "self")
                 and c.env[v][1] not in (DEVICE, XP)]
        for v in extra:
            cb.env[v] = (T.nm(v), c.env[v][1])
        self.nloops += 1
        if self.nloops > 1:
            self.bad("more than one loop")
        name = self.lean + "Step"
        tup = T.nm(state[0]) if len(state) == 1 else "(" + ", ".join(T.nm(v) for v in state) + ")"
        sty = " × ".join(stypes)

        def kk(c2, ind2):
            vals = [_coerce(c2.env[v][0], c2.env[v][1], t) for v, t in zip(state, stypes)]
            return "  " * ind2 + ".ok " + (vals[0] if len(vals) == 1 else "(" + ", ".join(vals) + ")")
        for st in s.body:
            for n in ast.walk(st):
                if isinstance(n, (ast.Return, ast.Raise, ast.Break, ast.Continue)):
                    self.bad("return / raise / break / continue inside the loop", n)
        body = self.block(list(s.body), cb, 2, kk)
        esig = " ".join("(%s : %s)" % (T.nm(v), c.env[v][1]) for v in extra)
        self.defs.append(
            "/-- generated from `%s`: one iteration of `%s` (state `%s`), statement by statement -/\n"
            "def %s %s %s %s (%s : %s) (p : %s) :\n    Except C03.Err (%s) :=\n%s%s\n" % (
                self.what, ast.unparse(s).split("\n")[0], tup, name, TCLASS, self.sig(), esig, tup, sty, ety, sty, elets, body))
        init = [c.env[v][0] for v in state]
        init = init[0] if len(init) == 1 else "(" + ", ".join(init) + ")"
        call = "C03.foldE (%s %s %s) %s %s" % (name, self.args(), " ".join(c.env[v][0] for v in extra), init, lst)
        c2 = c.copy()
        for v, t in zip(state, stypes):
            c2.env[v] = (T.nm(v), t)
            c2.const0.discard(v)
        return pad + "C03.bindE (%s) fun %s =>\n" % (call, tup) + self.block(rest, c2, ind, k)

    def translate(self):
        fn = self.fn
        a = fn.args
        if [x.arg for x in a.args] != ["self", "input"] or a.vararg or a.kwarg or a.kwonlyargs or a.posonlyargs or a.defaults:
            self.bad("signature")
        c = _ACtx({"input": ("input", ARR)})
        if self.self_is_op:
            c.env["self"] = ("self", OP)

        def falls_off(c2, ind2):
            self.bad("control can reach the end of the function without `return`")
        text = self.block(list(fn.body), c, 1, falls_off)
        out = list(self.defs)
        out.append("/-- generated from `%s`, statement by statement in source order; every Python exception is an `.error` -/\n"
                   "def %s %s %s :\n    Except C03.Err (%s) :=\n%s\n" % (self.what, self.lean, TCLASS, self.sig(), ARR, text))
        return out


def _shape_guard(tree, fname, attr, other, lean, out):
    """`def f(linops): for linop in linops: if linop.<attr> != linops[0].<attr>: raise` -> Bool (true = accepted)"""
    fn = T.find_function(tree, fname)

    def bad(what):
        raise T.Unsupported("%s: %s" % (fname, what))
    if [a.arg for a in fn.args.args] != ["linops"] or fn.args.vararg or fn.args.kwarg or fn.args.kwonlyargs or fn.args.defaults:
        bad("signature")
    body = [s for s in fn.body if not (isinstance(s, ast.Expr) and isinstance(s.value, ast.Constant))]
    if len(body) != 1 or not isinstance(body[0], ast.For) or body[0].orelse:
        bad("body is not a single `for` loop")
    f = body[0]
    if len(f.body) != 1 or not isinstance(f.body[0], ast.If) or f.body[0].orelse or len(f.body[0].body) != 1 \
            or not isinstance(f.body[0].body[0], ast.Raise):
        bad("loop body is not `if COND: raise`")
    test = ast.unparse(f.body[0].test)
    if other is None:
        if ast.unparse(f.target) != "linop" or ast.unparse(f.iter) != "linops":
            bad("loop is not `for linop in linops`")
        forms = {"linop.%s != linops[0].%s" % (attr, attr): "linop.%s ≠ l0.%s" % (attr, attr),
                 "linops[0].%s != linop.%s" % (attr, attr): "l0.%s ≠ linop.%s" % (attr, attr),
                 "not linop.%s == linops[0].%s" % (attr, attr): "¬ linop.%s = l0.%s" % (attr, attr)}
        if test not in forms:
            bad("test `%s` is not a comparison of linop.%s with linops[0].%s" % (test, attr, attr))
        out.append("/-- generated from `%s`: accepted iff the loop `for linop in linops: if %s: raise` does not raise\n"
                   "    (`linops[0]` is only evaluated inside the loop, i.e. for a non-empty list) -/\n"
                   "def %s {α : Type} (linops : List (C03.Op α)) : Bool :=\n  match linops with\n  | [] => true\n"
                   "  | l0 :: _ => linops.all fun linop => !(decide (%s))\n" % (fname, test, lean, forms[test]))
    else:
        if ast.unparse(f.target) not in ("(linop1, linop2)", "linop1, linop2") or ast.unparse(f.iter) != "zip(linops[:-1], linops[1:])":
            bad("loop is not `for linop1, linop2 in zip(linops[:-1], linops[1:])`")
        forms = {"linop1.%s != linop2.%s" % (attr, other): "p.1.%s ≠ p.2.%s" % (attr, other),
                 "linop2.%s != linop1.%s" % (other, attr): "p.2.%s ≠ p.1.%s" % (other, attr),
                 "not linop1.%s == linop2.%s" % (attr, other): "¬ p.1.%s = p.2.%s" % (attr, other)}
        if test not in forms:
            bad("test `%s` is not a comparison of linop1.%s with linop2.%s" % (test, attr, other))
        out.append("/-- generated from `%s`: accepted iff `for linop1, linop2 in zip(linops[:-1], linops[1:]): if %s: raise`\n"
                   "    does not raise -/\n"
                   "def %s {α : Type} (linops : List (C03.Op α)) : Bool :=\n"
                   "  (List.zip linops.dropLast (linops.drop 1)).all fun p => !(decide (%s))\n" % (fname, test, lean, forms[test]))


def _positive_guard(tree, out):
    """`_check_shape_positive(shape)`: after normalisation (N7) `for s in shape: if REJECT: raise`; the entries are ints, so the
    accepted condition `not REJECT` is pushed down to the comparisons and put in canonical form"""
    fn = T.find_function(tree, "_check_shape_positive")
    body = [s for s in fn.body if not (isinstance(s, ast.Expr) and isinstance(s.value, ast.Constant))]
    if [a.arg for a in fn.args.args] != ["shape"] or fn.args.vararg or fn.args.kwarg or fn.args.kwonlyargs or fn.args.defaults \
            or len(body) != 1 or not isinstance(body[0], ast.For) or body[0].orelse:
        raise T.Unsupported("_check_shape_positive: not `if not all(COND for s in shape): raise` / `for s in shape: if COND: raise`")
    f = body[0]
    if not isinstance(f.target, ast.Name) or ast.unparse(f.iter) != "shape" or len(f.body) != 1 or not isinstance(f.body[0], ast.If) \
            or f.body[0].orelse or len(f.body[0].body) != 1 or not isinstance(f.body[0].body[0], ast.Raise):
        raise T.Unsupported("_check_shape_positive: loop is not `for s in shape: if COND: raise`")
    v = f.target.id
    ok = N.canon_int_test(N.neg_int_test(f.body[0].test))
    cond = T.Expr({v: T.INT}).cond(ok)
    out.append("/-- generated from `_check_shape_positive`: accepted iff no entry of `shape` satisfies the test that raises, i.e. iff\n"
               "    every entry `%s` satisfies `%s` (canonical spelling of the negated test over ints) -/\n"
               "def checkShapePositive (shape : List Int) : Bool := shape.all fun %s => decide %s\n" % (
                   v, ast.unparse(ok), T.nm(v), cond))


def _call_dispatch(tree, out):
    """`Linop.__call__` -> `__mul__`: an ndarray argument is handed to `self.apply`"""
    fn = T.find_function(tree, "Linop.__call__")
    body = [s for s in fn.body if not (isinstance(s, ast.Expr) and isinstance(s.value, ast.Constant))]
    if [a.arg for a in fn.args.args] != ["self", "input"] or len(body) != 1 or ast.unparse(body[0]) != "return self.__mul__(input)":
        raise T.Unsupported("Linop.__call__ is not `return self.__mul__(input)`")
    fn = T.find_function(tree, "Linop.__mul__")
    body = [s for s in fn.body if not (isinstance(s, ast.Expr) and isinstance(s.value, ast.Constant))]
    if [a.arg for a in fn.args.args] != ["self", "input"] or not body or not isinstance(body[0], ast.If):
        raise T.Unsupported("Linop.__mul__: form")
    tests, node = [], body[0]
    while True:
        tests.append((ast.unparse(node.test), [ast.unparse(x) for x in node.body]))
        if len(node.orelse) == 1 and isinstance(node.orelse[0], ast.If):
            node = node.orelse[0]
        else:
            if node.orelse:
                raise T.Unsupported("Linop.__mul__: else branch")
            break
    want = [("isinstance(input, Linop)", ["return Compose([self, input])"]),
            ("np.isscalar(input)", ["M = Multiply(self.ishape, input)", "return Compose([self, M])"]),
            ("isinstance(input, backend.get_array_module(input).ndarray)", ["return self.apply(input)"])]
    if tests != want or [ast.unparse(x) for x in body[1:]] != ["return NotImplemented"]:
        raise T.Unsupported("Linop.__mul__: dispatch is not Linop -> Compose | scalar -> Compose([self, Multiply(self.ishape, a)]) | ndarray -> self.apply")
    out.append("/-- generated from `Linop.__call__` / `__mul__`: `A(x)` for an ndarray `x` is `A.apply(x)` (a Linop argument\n"
               "    builds `Compose([A, x])`, a SCALAR argument — numpy arithmetic on 0-d arrays returns scalars — builds\n"
               "    `Compose([A, Multiply(A.ishape, x)])` instead of applying: `C03.Val` in Model/C03Gen.lean) -/\n"
               "def linopCall %s (self : %s) (input : %s) : Except C03.Err (%s) := linopApply self input\n" % (TCLASS, OP, ARR, ARR))
    fn = T.find_function(tree, "Linop.__rmul__")
    body = [ast.unparse(s) for s in fn.body if not (isinstance(s, ast.Expr) and isinstance(s.value, ast.Constant))]
    if body != ["if np.isscalar(input):\n    M = Multiply(self.oshape, input)\n    return Compose([M, self])", "return NotImplemented"]:
        raise T.Unsupported("Linop.__rmul__ is not scalar -> Compose([Multiply(self.oshape, a), self])")
    for nm_, src in (("__add__", ["if isinstance(input, Linop):\n    return Add([self, input])\nelse:\n    raise NotImplementedError"]),
                     ("__neg__", ["return -1 * self"]), ("__sub__", ["return self.__add__(-input)"])):
        fn = T.find_function(tree, "Linop." + nm_)
        body = [ast.unparse(s) for s in fn.body if not (isinstance(s, ast.Expr) and isinstance(s.value, ast.Constant))]
        if body != src:
            raise T.Unsupported("Linop.%s changed: %s" % (nm_, body))
    out.append("/-- generated (literal check) from `Linop.__mul__/__rmul__/__add__/__neg__/__sub__`: which constructor each\n"
               "    operator spelling builds (`a * A` = Compose([Multiply(A.oshape, a), A]), `A * a` = Compose([A, Multiply(A.ishape, a)]),\n"
               "    `A + B` = Add([A, B]), `-A` = -1 * A, `A - B` = A + (-B)) -/\n"
               "def operatorSpellingsChecked : Bool := true\n")


def gen_linop_apply(ctx=None):
    tree = N.normalize(_parse("sigpy/linop.py"))
    out = [(HEADER % "sigpy/linop.py").replace(
        "import SigpyVerif.Model.Py\n",
        "import SigpyVerif.Model.Py\nimport SigpyVerif.Model.C03Base\nimport SigpyVerif.Model.C03\nimport SigpyVerif.Model.C03Np\n"
        "import SigpyVerif.Gen.StackParams\n")]
    _positive_guard(tree, out)
    _shape_guard(tree, "_check_linops_same_ishape", "ishape", None, "checkLinopsSameIshape", out)
    _shape_guard(tree, "_check_linops_same_oshape", "oshape", None, "checkLinopsSameOshape", out)
    _shape_guard(tree, "_check_compose_linops", "ishape", "oshape", "checkComposeLinops", out)
    out.extend(_Apply(T.find_function(tree, "Linop.apply"), "Linop.apply", "linopApply", self_is_op=True).translate())
    _call_dispatch(tree, out)
    for cls, lean in (("Compose", "composeApply"), ("Add", "addApply"), ("Hstack", "hstackApply"),
                      ("Vstack", "vstackApply"), ("Diag", "diagApply")):
        out.extend(_Apply(T.find_function(tree, cls + "._apply"), cls + "._apply", lean).translate())
    out.append("end SigpyVerif.Gen\n")
    return "\n".join(out)


def gen_stack_params(ctx=None):
    tree = N.normalize(_parse("sigpy/linop.py"))
    out = [(HEADER % "sigpy/linop.py").replace("import SigpyVerif.Model.Py\n",
                                                "import SigpyVerif.Model.Py\nimport SigpyVerif.Model.C03Base\n")]
    _apply_axis(tree, "Hstack", "axis", "hstackApplyAxis", out)
    _apply_axis(tree, "Vstack", "axis", "vstackApplyAxis", out)
    _apply_axis(tree, "Diag", "iaxis", "diagApplyIAxis", out)
    _apply_axis(tree, "Diag", "oaxis", "diagApplyOAxis", out)
    # faithful statement-by-statement translation of both parameter functions and of the shape guards
    out.extend(_Seq(T.find_function(tree, "_hstack_params"), "hstack").translate())
    out.extend(_Seq(T.find_function(tree, "_vstack_params"), "vstack").translate())
    _guard(tree, "_check_ishape", "ishape", "checkIshape", out)
    _guard(tree, "_check_oshape", "oshape", "checkOshape", out)
    out.append("end SigpyVerif.Gen\n")
    return "\n".join(out)


GENERATORS = {"StackParams": gen_stack_params, "LinopApply": gen_linop_apply}
