"""Translator plugin for C08: integer formulas and decision logic of sigpy/conv.py (T2).

Generated into lean/SigpyVerif/Gen/ConvFormulas.lean:

  convFullLen / convValidLen   element of `p` in `_get_convolve_params` per mode
  convValidRejects             the admission test of the `valid` branch (the `if … : raise ValueError`)
  dataAdjBufLen{Full,Valid}    element of the zero-stuffed buffer shape in `_convolve_data_adjoint`
  dataAdjCorrFull              which `scipy.signal.correlate` mode the branches choose (true = 'full')
  filtAdjBufLen{Full,Valid}, filtAdjCorrFull    the same for `_convolve_filter_adjoint`

Anything outside the recognised shape raises `Unsupported` (a broken obligation, never a pass).
"""
import ast

from harness.translate import gen as G
from harness.translate import py2lean as T


def _mode_branches(fn):
    """the statement lists of `if mode == "full": … elif mode == "valid": …` in fn"""
    out = {}

    def mode_of(test):
        if isinstance(test, ast.Compare) and isinstance(test.left, ast.Name) and test.left.id == "mode" \
                and len(test.ops) == 1 and isinstance(test.ops[0], ast.Eq) \
                and isinstance(test.comparators[0], ast.Constant) and isinstance(test.comparators[0].value, str):
            return test.comparators[0].value
        return None

    for n in ast.walk(fn):
        if isinstance(n, ast.If):
            mo = mode_of(n.test)
            if mo is not None:
                if mo in out:
                    raise T.Unsupported("two branches for mode %s in %s" % (mo, fn.name))
                out[mo] = n.body
    if set(out) != {"full", "valid"}:
        raise T.Unsupported("mode branches of %s: %s" % (fn.name, sorted(out)))
    return out


def _assign_in(stmts, target):
    for s in stmts:
        if isinstance(s, ast.Assign) and len(s.targets) == 1 and isinstance(s.targets[0], ast.Name) \
                and s.targets[0].id == target:
            return s.value
    raise T.Unsupported("no top-level assignment to %s in branch" % target)


def _comp(node, want_iter):
    """`tuple(E for a, b in zip(x, y))`, `[E for …]`, `np.zeros([E for …], …)` -> (elt, names); the zip
    arguments must be exactly `want_iter` so that the bound names keep their meaning."""
    if isinstance(node, ast.Call) and isinstance(node.func, ast.Name) and node.func.id == "tuple" and len(node.args) == 1:
        node = node.args[0]
    if isinstance(node, ast.Call) and isinstance(node.func, ast.Attribute) and node.func.attr == "zeros" and node.args:
        node = node.args[0]
    if not isinstance(node, (ast.GeneratorExp, ast.ListComp)) or len(node.generators) != 1:
        raise T.Unsupported("not a simple comprehension: %s" % ast.dump(node)[:80])
    g = node.generators[0]
    if g.ifs:
        raise T.Unsupported("comprehension filter")
    it = g.iter
    if not (isinstance(it, ast.Call) and isinstance(it.func, ast.Name) and it.func.id == "zip"
            and [getattr(a, "id", None) for a in it.args] == list(want_iter)):
        raise T.Unsupported("comprehension iterates over %s, expected zip(%s)" % (ast.dump(it)[:80], ", ".join(want_iter)))
    t = g.target
    names = [e.id for e in t.elts] if isinstance(t, ast.Tuple) else [t.id]
    if len(names) != len(want_iter):
        raise T.Unsupported("comprehension target arity")
    return node.elt, names


def _list_cond(e):
    """Bool expression over the lists m, n: and/or/not of any(...)/all(...) over zip(m, n)."""
    if isinstance(e, ast.BoolOp):
        sym = " && " if isinstance(e.op, ast.And) else " || "
        return "(" + sym.join(_list_cond(v) for v in e.values) + ")"
    if isinstance(e, ast.UnaryOp) and isinstance(e.op, ast.Not):
        return "(!%s)" % _list_cond(e.operand)
    if isinstance(e, ast.Call) and isinstance(e.func, ast.Name) and e.func.id in ("any", "all") and len(e.args) == 1:
        elt, names = _comp(e.args[0], ["m", "n"])
        c = T.Expr({v: T.INT for v in names}).cond(elt)
        return "((List.zip m n).%s fun ((%s, %s) : Int × Int) => decide %s)" % (e.func.id, T.nm(names[0]), T.nm(names[1]), c)
    raise T.Unsupported("list condition %s" % ast.dump(e)[:80])


def _const_mode(stmts):
    v = _assign_in(stmts, "adjoint_mode")
    if isinstance(v, ast.Constant) and v.value in ("full", "valid"):
        return "true" if v.value == "full" else "false"
    raise T.Unsupported("adjoint_mode is not a literal 'full'/'valid'")


def _adjoint(tree, fname, prefix, out):
    fn = T.find_function(tree, fname)
    br = _mode_branches(fn)
    for mo, lean in (("full", prefix + "BufLenFull"), ("valid", prefix + "BufLenValid")):
        elt, names = _comp(_assign_in(br[mo], "output_kj"), ["m", "n"])
        out.append("/-- generated from `%s` (mode '%s'): element of the shape of `output_kj` -/\n"
                   "def %s (%s : Int) : Int := %s\n" % (fname, mo, lean, " ".join(T.nm(x) for x in names), T.formula(elt, names)))
    full_mode = _const_mode(br["full"])
    ifs = [s for s in br["valid"] if isinstance(s, ast.If)]
    if len(ifs) == 1:
        valid_mode = "(if %s then %s else %s)" % (_list_cond(ifs[0].test), _const_mode(ifs[0].body), _const_mode(ifs[0].orelse))
    elif not ifs:
        valid_mode = _const_mode(br["valid"])
    else:
        raise T.Unsupported("valid branch of %s has %d ifs" % (fname, len(ifs)))
    out.append("/-- generated from `%s`: the `scipy.signal.correlate` mode chosen (true = 'full', false = 'valid');\n"
               "    `modeFull` = the convolution mode is 'full' -/\n"
               "def %sCorrFull (modeFull : Bool) (m n : List Int) : Bool :=\n  if modeFull then %s else %s\n" % (
                   fname, prefix, full_mode, valid_mode))


def gen_conv_formulas(ctx=None):
    tree = G._parse("sigpy/conv.py")
    out = [G.HEADER % "sigpy/conv.py"]
    fn = T.find_function(tree, "_get_convolve_params")
    br = _mode_branches(fn)
    for mo, lean in (("full", "convFullLen"), ("valid", "convValidLen")):
        elt, names = _comp(_assign_in(br[mo], "p"), ["m", "n", "s"])
        out.append("/-- generated from `_get_convolve_params` (mode '%s'): element of `p` -/\n"
                   "def %s (%s : Int) : Int := %s\n" % (mo, lean, " ".join(T.nm(x) for x in names), T.formula(elt, names)))
    # admission test of the valid branch: the `if …: raise ValueError`
    rej = [s for s in br["valid"] if isinstance(s, ast.If) and len(s.body) == 1 and isinstance(s.body[0], ast.Raise)
           and not s.orelse]
    if len(rej) != 1:
        raise T.Unsupported("valid branch: expected one `if …: raise`, got %d" % len(rej))
    if any(isinstance(s, ast.If) and s is not rej[0] for s in br["valid"]) or \
            any(isinstance(s, ast.If) for s in br["full"]):
        raise T.Unsupported("extra conditionals in the mode branches of _get_convolve_params")
    out.append("/-- generated from `_get_convolve_params`: the size test of mode 'valid' (true = ValueError) -/\n"
               "def convValidRejects (m n : List Int) : Bool :=\n  %s\n" % _list_cond(rej[0].test))
    _adjoint(tree, "_convolve_data_adjoint", "dataAdj", out)
    _adjoint(tree, "_convolve_filter_adjoint", "filtAdj", out)
    out.append("end SigpyVerif.Gen\n")
    return "\n".join(out)


GENERATORS = {"ConvFormulas": gen_conv_formulas}
