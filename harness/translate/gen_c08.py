"""Translator plugin for C08: integer formulas and decision logic of sigpy/conv.py (T2).

Generated into lean/SigpyVerif/Gen/ConvFormulas.lean:

  convFullLen / convValidLen   element of `p` in `_get_convolve_params` per mode
  convValidRejects             the admission test of the `valid` branch (the `if … : raise ValueError`)
  dataAdjBufLen{Full,Valid}    element of the zero-stuffed buffer shape in `_convolve_data_adjoint`
  dataAdjCorrFull              which `scipy.signal.correlate` mode the branches choose (true = 'full')
  filtAdjBufLen{Full,Valid}, filtAdjCorrFull    the same for `_convolve_filter_adjoint`

Anything outside the recognised shape raises `Unsupported` (a broken obligation, never a pass).
"""
import ast

from harness.translate import gen as G
from harness.translate import norm_c08 as N
from harness.translate import py2lean as T


def _parse_conv():
    """sigpy/conv.py, parsed and normalised (harness/translate/norm_c08.py: helper inlining, temporaries, argument
    forms, guard / loop spellings — each rewrite semantics-preserving, anything else is left for the matchers below
    to reject)"""
    return N.normalize(G._parse("sigpy/conv.py"))


def _mode_branches(fn):
    """the statement lists of `if mode == "full": … elif mode == "valid": …` in fn"""
    out = {}

    def mode_of(test):
        if isinstance(test, ast.Compare) and isinstance(test.left, ast.Name) and test.left.id == "mode" \
                and len(test.ops) == 1 and isinstance(test.ops[0], ast.Eq) \
                and isinstance(test.comparators[0], ast.Constant) and isinstance(test.comparators[0].value, str):
            return test.comparators[0].value
        return None

    for n in ast.walk(fn):
        if isinstance(n, ast.If):
            mo = mode_of(n.test)
            if mo is not None:
                if mo in out:
                    raise T.Unsupported("two branches for mode %s in %s" % (mo, fn.name))
                out[mo] = n.body
    if set(out) != {"full", "valid"}:
        raise T.Unsupported("mode branches of %s: %s" % (fn.name, sorted(out)))
    return out


def _assign_in(stmts, target):
    for s in stmts:
        if isinstance(s, ast.Assign) and len(s.targets) == 1 and isinstance(s.targets[0], ast.Name) \
                and s.targets[0].id == target:
            return s.value
    raise T.Unsupported("no top-level assignment to %s in branch" % target)


def _comp(node, want_iter):
    """`tuple(E for a, b in zip(x, y))`, `[E for …]`, `np.zeros([E for …], …)` -> (elt, names); the zip
    arguments must be exactly `want_iter` so that the bound names keep their meaning."""
    if isinstance(node, ast.Call) and isinstance(node.func, ast.Name) and node.func.id == "tuple" and len(node.args) == 1:
        node = node.args[0]
    if isinstance(node, ast.Call) and isinstance(node.func, ast.Attribute) and node.func.attr == "zeros" and node.args:
        node = node.args[0]
    if not isinstance(node, (ast.GeneratorExp, ast.ListComp)) or len(node.generators) != 1:
        raise T.Unsupported("not a simple comprehension: %s" % ast.dump(node)[:80])
    g = node.generators[0]
    if g.ifs:
        raise T.Unsupported("comprehension filter")
    it = g.iter
    if not (isinstance(it, ast.Call) and isinstance(it.func, ast.Name) and it.func.id == "zip"
            and [getattr(a, "id", None) for a in it.args] == list(want_iter)):
        raise T.Unsupported("comprehension iterates over %s, expected zip(%s)" % (ast.dump(it)[:80], ", ".join(want_iter)))
    t = g.target
    names = [e.id for e in t.elts] if isinstance(t, ast.Tuple) else [t.id]
    if len(names) != len(want_iter):
        raise T.Unsupported("comprehension target arity")
    return node.elt, names


def _list_cond(e):
    """Bool expression over the lists m, n: and/or/not of any(...)/all(...) over zip(m, n)."""
    if isinstance(e, ast.BoolOp):
        sym = " && " if isinstance(e.op, ast.And) else " || "
        return "(" + sym.join(_list_cond(v) for v in e.values) + ")"
    if isinstance(e, ast.UnaryOp) and isinstance(e.op, ast.Not):
        return "(!%s)" % _list_cond(e.operand)
    if isinstance(e, ast.Call) and isinstance(e.func, ast.Name) and e.func.id in ("any", "all") and len(e.args) == 1:
        elt, names = _comp(e.args[0], ["m", "n"])
        c = T.Expr({v: T.INT for v in names}).cond(elt)
        return "((List.zip m n).%s fun ((%s, %s) : Int × Int) => decide %s)" % (e.func.id, T.nm(names[0]), T.nm(names[1]), c)
    raise T.Unsupported("list condition %s" % ast.dump(e)[:80])


def _const_mode(stmts):
    v = _assign_in(stmts, "adjoint_mode")
    if isinstance(v, ast.Constant) and v.value in ("full", "valid"):
        return "true" if v.value == "full" else "false"
    raise T.Unsupported("adjoint_mode is not a literal 'full'/'valid'")


def _adjoint(tree, fname, prefix, out):
    fn = T.find_function(tree, fname)
    br = _mode_branches(fn)
    for mo, lean in (("full", prefix + "BufLenFull"), ("valid", prefix + "BufLenValid")):
        elt, names = _comp(_assign_in(br[mo], "output_kj"), ["m", "n"])
        out.append("/-- generated from `%s` (mode '%s'): element of the shape of `output_kj` -/\n"
                   "def %s (%s : Int) : Int := %s\n" % (fname, mo, lean, " ".join(T.nm(x) for x in names), T.formula(elt, names)))
    full_mode = _const_mode(br["full"])
    ifs = [s for s in br["valid"] if isinstance(s, ast.If)]
    if len(ifs) == 1:
        valid_mode = "(if %s then %s else %s)" % (_list_cond(ifs[0].test), _const_mode(ifs[0].body), _const_mode(ifs[0].orelse))
    elif not ifs:
        valid_mode = _const_mode(br["valid"])
    else:
        raise T.Unsupported("valid branch of %s has %d ifs" % (fname, len(ifs)))
    out.append("/-- generated from `%s`: the `scipy.signal.correlate` mode chosen (true = 'full', false = 'valid');\n"
               "    `modeFull` = the convolution mode is 'full' -/\n"
               "def %sCorrFull (modeFull : Bool) (m n : List Int) : Bool :=\n  if modeFull then %s else %s\n" % (
                   fname, prefix, full_mode, valid_mode))


def gen_conv_formulas(ctx=None):
    tree = _parse_conv()
    out = [G.HEADER % "sigpy/conv.py"]
    fn = T.find_function(tree, "_get_convolve_params")
    br = _mode_branches(fn)
    for mo, lean in (("full", "convFullLen"), ("valid", "convValidLen")):
        elt, names = _comp(_assign_in(br[mo], "p"), ["m", "n", "s"])
        out.append("/-- generated from `_get_convolve_params` (mode '%s'): element of `p` -/\n"
                   "def %s (%s : Int) : Int := %s\n" % (mo, lean, " ".join(T.nm(x) for x in names), T.formula(elt, names)))
    # admission test of the valid branch: the `if …: raise ValueError`
    rej = [s for s in br["valid"] if isinstance(s, ast.If) and len(s.body) == 1 and isinstance(s.body[0], ast.Raise)
           and not s.orelse]
    if len(rej) != 1:
        raise T.Unsupported("valid branch: expected one `if …: raise`, got %d" % len(rej))
    if any(isinstance(s, ast.If) and s is not rej[0] for s in br["valid"]) or \
            any(isinstance(s, ast.If) for s in br["full"]):
        raise T.Unsupported("extra conditionals in the mode branches of _get_convolve_params")
    out.append("/-- generated from `_get_convolve_params`: the size test of mode 'valid' (true = ValueError) -/\n"
               "def convValidRejects (m n : List Int) : Bool :=\n  %s\n" % _list_cond(rej[0].test))
    _adjoint(tree, "_convolve_data_adjoint", "dataAdj", out)
    _adjoint(tree, "_convolve_filter_adjoint", "filtAdj", out)
    out.append("end SigpyVerif.Gen\n")
    return "\n".join(out)



# ======================================================================================================
#  Gen/ConvWiring.lean — loop wiring, zero-stuffing, stride slice, `+=`, allocation dtypes of
#  `_convolve`, `_convolve_data_adjoint`, `_convolve_filter_adjoint`
# ======================================================================================================
WIRING_HEADER = """/- GENERATED by harness/translate/gen_c08.py from sigpy/conv.py — do not edit; regenerated on every check. -/
set_option linter.unusedVariables false
namespace SigpyVerif.Gen

/-- the three loop ranges of the (batch, output channel, input channel) nest: `range(B)`, `range(c_o)`, `range(c_i)` -/
inductive ConvDim where
  | B | co | ci
deriving DecidableEq, Repr

/-- the arrays of the three functions -/
inductive ConvArr where
  | data | filt | output | outputKj
deriving DecidableEq, Repr

inductive ConvOp where
  | convolve | correlate
deriving DecidableEq, Repr

/-- which variable is passed as `mode=` to scipy -/
inductive ConvModeArg where
  | mode | adjointMode
deriving DecidableEq, Repr

/-- trailing (spatial) part of a normalised shape -/
inductive ConvTail where
  | m | n | p
deriving DecidableEq, Repr

/-- one summand of a shape expression handed to `reshape` (`(B, c_i) + m`, `b + (c_o,) + p`, `data_shape`, …):
    the tuples `b`, `m`, `n`, `p` / the scalars `B`, `c_i`, `c_o` returned by `_get_convolve_params`, or one of the two
    shape arguments `_get_convolve_params` was called with -/
inductive ConvShapeTerm where
  | b | m | n | p | B | ci | co | dataShapeArg | filtShapeArg
deriving DecidableEq, Repr

/-- what a function passes to `_get_convolve_params` as data / filter shape: `<array>.shape` or its own shape parameter -/
inductive ConvShapeSrc where
  | arrayShape (a : ConvArr) | shapeParam
deriving DecidableEq, Repr

"""

_DIMS = {"B": "B", "c_o": "co", "c_i": "ci"}
_ARRS = {"data": "data", "filt": "filt", "output": "output", "output_kj": "outputKj"}
_PARAM_NAMES = ["D", "b", "B", "m", "n", "s", "c_i", "c_o", "p"]


def _dim(x):
    return "ConvDim." + x


def _arr(x):
    return "ConvArr." + x


def _is_name(e, name=None):
    return isinstance(e, ast.Name) and (name is None or e.id == name)


def _lead_tail(e):
    """`(R1, R2) + T` with R1, R2 in B/c_o/c_i and T in m/n/p -> (dim, dim, tail)"""
    if isinstance(e, ast.BinOp) and isinstance(e.op, ast.Add) and isinstance(e.left, ast.Tuple) \
            and len(e.left.elts) == 2 and all(_is_name(x) and x.id in _DIMS for x in e.left.elts) \
            and _is_name(e.right) and e.right.id in ("m", "n", "p"):
        return _DIMS[e.left.elts[0].id], _DIMS[e.left.elts[1].id], e.right.id
    raise T.Unsupported("normalised shape is not `(R1, R2) + T`: %s" % ast.dump(e)[:100])


_TUPLES = {"b": "b", "m": "m", "n": "n", "p": "p"}
_SCALARS = {"B": "B", "c_i": "ci", "c_o": "co"}


def _shape_terms(e, params):
    """a shape expression `T1 + T2 + …` with every summand one of b / m / n / p, a tuple of B / c_i / c_o, or the
    function's own shape parameter (the one it handed to `_get_convolve_params`) -> list of ConvShapeTerm names"""
    if isinstance(e, ast.BinOp) and isinstance(e.op, ast.Add):
        return _shape_terms(e.left, params) + _shape_terms(e.right, params)
    if _is_name(e) and e.id in _TUPLES:
        return [_TUPLES[e.id]]
    if _is_name(e) and e.id in params:
        return [params[e.id]]
    if isinstance(e, ast.Tuple) and e.elts and all(_is_name(x) and x.id in _SCALARS for x in e.elts):
        return [_SCALARS[x.id] for x in e.elts]
    raise T.Unsupported("shape expression outside the subset: %s" % ast.unparse(e)[:100])


def _terms(l):
    return "[" + ", ".join("ConvShapeTerm." + x for x in l) + "]"


def _dtype_of(call):
    """keyword `dtype=X.dtype` of an np.zeros / np.empty call -> (array X, zeros?)"""
    if not (isinstance(call, ast.Call) and isinstance(call.func, ast.Attribute) and _is_name(call.func.value, "np")
            and call.func.attr in ("zeros", "empty") and len(call.args) == 1):
        raise T.Unsupported("allocation is not np.zeros/np.empty(shape, dtype=…): %s" % ast.dump(call)[:100])
    kws = {k.arg: k.value for k in call.keywords}
    if set(kws) != {"dtype"}:
        raise T.Unsupported("allocation keywords %s (expected dtype=X.dtype)" % sorted(kws, key=str))
    d = kws["dtype"]
    if not (isinstance(d, ast.Attribute) and d.attr == "dtype" and _is_name(d.value) and d.value.id in _ARRS):
        raise T.Unsupported("dtype is not `<array>.dtype`: %s" % ast.dump(d)[:80])
    return _ARRS[d.value.id], call.func.attr == "zeros"


def _idx2(sub, env):
    """`ARR[v, w]` with v, w loop variables -> (arr, (dim, dim))"""
    if not (isinstance(sub, ast.Subscript) and _is_name(sub.value) and sub.value.id in _ARRS):
        raise T.Unsupported("operand is not `<array>[v, w]`: %s" % ast.dump(sub)[:100])
    sl = sub.slice
    if not (isinstance(sl, ast.Tuple) and len(sl.elts) == 2 and all(_is_name(x) for x in sl.elts)):
        raise T.Unsupported("index of %s is not a pair of loop variables" % sub.value.id)
    for x in sl.elts:
        if x.id not in env:
            raise T.Unsupported("index variable %s of %s is not a variable of an enclosing loop" % (x.id, sub.value.id))
    return _ARRS[sub.value.id], (env[sl.elts[0].id], env[sl.elts[1].id])


def _is_slc_def(v):
    """`tuple(slice(None, None, s_d) for s_d in s)`"""
    if not (isinstance(v, ast.Call) and _is_name(v.func, "tuple") and len(v.args) == 1 and not v.keywords
            and isinstance(v.args[0], ast.GeneratorExp) and len(v.args[0].generators) == 1):
        return False
    g = v.args[0].generators[0]
    e = v.args[0].elt
    if g.ifs or not _is_name(g.iter, "s") or not _is_name(g.target):
        return False
    return (isinstance(e, ast.Call) and _is_name(e.func, "slice") and len(e.args) == 3 and not e.keywords
            and all(isinstance(a, ast.Constant) and a.value is None for a in e.args[:2])
            and _is_name(e.args[2], g.target.id))


def _nest(stmts, env, order, found, path):
    """walk the loop nest; `env`: loop variable -> dim of the enclosing loops; `found`: statements collected"""
    for pos, s in enumerate(stmts):
        here = path + [pos]
        if isinstance(s, ast.For):
            it = s.iter
            if s.orelse or not _is_name(s.target) or not (isinstance(it, ast.Call) and _is_name(it.func, "range")
                                                          and len(it.args) == 1 and not it.keywords
                                                          and _is_name(it.args[0]) and it.args[0].id in _DIMS):
                raise T.Unsupported("loop is not `for v in range(B | c_o | c_i)`: %s" % ast.dump(s.iter)[:80])
            dim = _DIMS[it.args[0].id]
            if dim in env.values() or s.target.id in env:
                raise T.Unsupported("loop over %s nested twice / loop variable reused" % it.args[0].id)
            found.setdefault("loops", []).append((dim, here))
            env2 = dict(env)
            env2[s.target.id] = dim
            _nest(s.body, env2, order + [dim], found, here)
        elif isinstance(s, ast.Assign) and len(s.targets) == 1 and isinstance(s.targets[0], ast.Subscript) \
                and _is_name(s.targets[0].value, "output_kj"):
            if "stuff" in found:
                raise T.Unsupported("two assignments into output_kj")
            tgt = s.targets[0]
            arr, idx = _idx2(s.value, env)
            found["stuff"] = dict(sliced=_is_name(tgt.slice, "slc"), arr=arr, idx=idx, scope=list(order), path=here)
            if not found["stuff"]["sliced"] and not (isinstance(tgt.slice, ast.Constant) and tgt.slice.value is Ellipsis):
                raise T.Unsupported("output_kj is written through an index other than [slc] / [...]")
        elif isinstance(s, (ast.AugAssign, ast.Assign)):
            tgt = s.target if isinstance(s, ast.AugAssign) else (s.targets[0] if len(s.targets) == 1 else None)
            if isinstance(s, ast.AugAssign) and not isinstance(s.op, ast.Add):
                raise T.Unsupported("augmented assignment other than +=")
            if "acc" in found:
                raise T.Unsupported("two accumulate statements in the nest")
            arr, idx = _idx2(tgt, env)
            v = s.value
            sliced = False
            if isinstance(v, ast.Subscript):
                if not _is_name(v.slice, "slc"):
                    raise T.Unsupported("result is indexed with something other than [slc]")
                sliced, v = True, v.value
            if not (isinstance(v, ast.Call) and isinstance(v.func, ast.Attribute) and _is_name(v.func.value, "signal")
                    and v.func.attr in ("convolve", "correlate") and len(v.args) == 2):
                raise T.Unsupported("accumulated term is not signal.convolve / signal.correlate (a, b, mode=…): %s" % ast.dump(v)[:100])
            kws = {k.arg: k.value for k in v.keywords}
            if set(kws) != {"mode"} or not (_is_name(kws["mode"]) and kws["mode"].id in ("mode", "adjoint_mode")):
                raise T.Unsupported("scipy call keywords %s" % sorted(kws, key=str))
            ops = []
            for a in v.args:
                if _is_name(a):
                    if a.id not in _ARRS:
                        raise T.Unsupported("operand %s" % a.id)
                    ops.append((_ARRS[a.id], None))
                else:
                    ops.append(_idx2(a, env))
            found["acc"] = dict(arr=arr, idx=idx, add=isinstance(s, ast.AugAssign), sliced=sliced, op=v.func.attr,
                                mode="adjointMode" if kws["mode"].id == "adjoint_mode" else "mode", ops=ops,
                                scope=list(order), path=here)
        else:
            raise T.Unsupported("statement in the loop nest outside the subset: %s" % ast.dump(s)[:100])


def _wiring(tree, fname, prefix, adjoint, shape_args, out):
    fn = T.find_function(tree, fname)
    body = [s for s in fn.body if not (isinstance(s, ast.Expr) and isinstance(s.value, ast.Constant))]
    layout, alloc, final, found, norm = {}, {}, {}, {}, {}
    # the function's own shape parameter (if any) and what it stands for in `_get_convolve_params(<data shape>, <filter shape>, …)`
    sparams = {a: t for a, t in zip(shape_args, ("dataShapeArg", "filtShapeArg")) if not a.endswith(".shape")}
    seen_loop = seen_slc = seen_params = seen_mode = False
    ret = None
    for s in body:
        if ret is not None:
            raise T.Unsupported("%s: code after return" % fname)
        if isinstance(s, ast.Assign) and len(s.targets) == 1 and isinstance(s.targets[0], ast.Tuple):
            names = [getattr(e, "id", None) for e in s.targets[0].elts]
            v = s.value
            if names != _PARAM_NAMES or seen_params or seen_loop or not (
                    isinstance(v, ast.Call) and _is_name(v.func, "_get_convolve_params") and not v.keywords
                    and [ast.unparse(a) for a in v.args] == shape_args + ["mode", "strides", "multi_channel"]):
                raise T.Unsupported("%s: `D, b, B, m, n, s, c_i, c_o, p = _get_convolve_params(%s, mode, strides, multi_channel)` "
                                    "expected, got %s" % (fname, ", ".join(shape_args), ast.unparse(s)[:160]))
            seen_params = True
        elif isinstance(s, ast.Assign) and len(s.targets) == 1 and _is_name(s.targets[0]):
            name, v = s.targets[0].id, s.value
            if name == "slc":
                if seen_slc or seen_loop or not _is_slc_def(v):
                    raise T.Unsupported("%s: slc is not `tuple(slice(None, None, s_d) for s_d in s)`" % fname)
                seen_slc = True
            elif name in ("data", "filt", "output"):
                is_reshape = (isinstance(v, ast.Call) and isinstance(v.func, ast.Attribute) and v.func.attr == "reshape"
                              and _is_name(v.func.value, name) and len(v.args) == 1 and not v.keywords)
                if is_reshape and not seen_loop:
                    if name in layout:
                        raise T.Unsupported("%s: %s normalised twice" % (fname, name))
                    layout[name] = _lead_tail(v.args[0])
                    norm[name] = _shape_terms(v.args[0], sparams)
                elif is_reshape and seen_loop:
                    if final:
                        raise T.Unsupported("%s: two reshapes after the loops" % fname)
                    final[name] = (_shape_terms(v.args[0], sparams),) * 2
                elif not seen_loop:
                    if name in layout:
                        raise T.Unsupported("%s: %s normalised twice" % (fname, name))
                    alloc[name] = _dtype_of(v)
                    layout[name] = _lead_tail(v.args[0])
                    norm[name] = _shape_terms(v.args[0], sparams)
                else:
                    raise T.Unsupported("%s: assignment to %s after the loops: %s" % (fname, name, ast.unparse(s)[:100]))
            elif name == "data_shape" or name == "filt_shape":
                raise T.Unsupported("%s: %s reassigned" % (fname, name))
            else:
                raise T.Unsupported("%s: assignment to %s outside the subset" % (fname, name))
        elif isinstance(s, ast.If) and adjoint and not seen_loop and not seen_mode:
            br = _mode_branches(fn)
            if s.body is not br["full"]:
                raise T.Unsupported("%s: unexpected conditional before the loops" % fname)
            seen_mode = True
            for mo in ("full", "valid"):
                for t in br[mo]:
                    ok = (isinstance(t, ast.Assign) and len(t.targets) == 1 and _is_name(t.targets[0])
                          and t.targets[0].id in ("output_kj", "adjoint_mode"))
                    if isinstance(t, ast.If) and mo == "valid":
                        ok = all(isinstance(u, ast.Assign) and len(u.targets) == 1 and _is_name(u.targets[0], "adjoint_mode")
                                 for u in t.body + t.orelse)
                    if not ok:
                        raise T.Unsupported("%s: statement in the mode branches outside the subset: %s" % (fname, ast.unparse(t)[:100]))
                alloc["output_kj:" + mo] = _dtype_of(_assign_in(br[mo], "output_kj"))
        elif isinstance(s, ast.If) and not adjoint and seen_loop and _is_name(s.test, "multi_channel"):
            # final reshape of `_convolve`: `output = output.reshape(<terms>)` in both branches of `if multi_channel:`
            if final or len(s.body) != 1 or len(s.orelse) != 1:
                raise T.Unsupported("%s: final reshape block outside the subset" % fname)
            two = []
            for t in s.body + s.orelse:
                if not (isinstance(t, ast.Assign) and len(t.targets) == 1 and _is_name(t.targets[0], "output")
                        and isinstance(t.value, ast.Call) and isinstance(t.value.func, ast.Attribute)
                        and t.value.func.attr == "reshape" and _is_name(t.value.func.value, "output")
                        and len(t.value.args) == 1 and not t.value.keywords):
                    raise T.Unsupported("%s: final reshape outside the subset: %s" % (fname, ast.unparse(t)[:100]))
                two.append(_shape_terms(t.value.args[0], sparams))
            final["output"] = tuple(two)
        elif isinstance(s, ast.For):
            if seen_loop:
                raise T.Unsupported("%s: two loop nests" % fname)
            seen_loop = True
            _nest([s], {}, [], found, [])
        elif isinstance(s, ast.Return):
            ret = s.value
        else:
            raise T.Unsupported("%s: statement outside the subset: %s" % (fname, ast.unparse(s)[:100]))
    if not (seen_params and seen_slc and seen_loop and "acc" in found) or (adjoint and not (seen_mode and "stuff" in found)) \
            or (not adjoint and "stuff" in found):
        raise T.Unsupported("%s: parameters / slc / loop nest / accumulate / zero-stuffing statement not all found" % fname)
    acc = found["acc"]
    loops = [d for d, _ in found["loops"]]
    if sorted(loops) != ["B", "ci", "co"]:
        raise T.Unsupported("%s: loops range over %s, expected B, c_o, c_i once each" % (fname, loops))
    if not (_is_name(ret) and _ARRS.get(ret.id) == acc["arr"]):
        raise T.Unsupported("%s: the returned array is not the accumulated one" % fname)
    for a in ("data", "filt", "output"):
        if a not in layout:
            raise T.Unsupported("%s: %s is not normalised to `(R1, R2) + T`" % (fname, a))
    if acc["arr"] not in alloc:
        raise T.Unsupported("%s: the accumulated array %s is not allocated in the function" % (fname, acc["arr"]))
    if list(final) != [ret.id]:
        raise T.Unsupported("%s: the returned array is not reshaped exactly once after the loops (%s)" % (fname, sorted(final)))
    pair = lambda ix: "(%s, %s)" % (_dim(ix[0]), _dim(ix[1]))
    lst = lambda l: "[" + ", ".join(_dim(x) for x in l) + "]"
    b = lambda x: "true" if x else "false"
    src = "`%s`" % fname
    o = out.append
    o("/-! ### %s -/\n" % src)
    o("/-- %s: the loop ranges, outermost first -/\ndef %sLoops : List ConvDim := %s\n" % (src, prefix, lst(loops)))
    o("/-- %s: the array and the slice the loop body accumulates into (`X[v, w] += …`), v, w named by the loop they come from -/\n"
      "def %sAccArr : ConvArr := %s\ndef %sAccIdx : ConvDim × ConvDim := %s\n" % (src, prefix, _arr(acc["arr"]), prefix, pair(acc["idx"])))
    o("/-- %s: `+=` (true) or `=` (false) -/\ndef %sAccIsAdd : Bool := %s\n" % (src, prefix, b(acc["add"])))
    o("/-- %s: the loops enclosing the accumulate statement -/\ndef %sAccScope : List ConvDim := %s\n" % (src, prefix, lst(acc["scope"])))
    o("/-- %s: scipy function, its `mode=` argument, and whether `[slc]` is applied to the result -/\n"
      "def %sOp : ConvOp := ConvOp.%s\ndef %sModeArg : ConvModeArg := ConvModeArg.%s\ndef %sResultSliced : Bool := %s\n" % (
          src, prefix, acc["op"], prefix, acc["mode"], prefix, b(acc["sliced"])))
    (la, li), (ra, ri) = acc["ops"]
    if ri is None:
        raise T.Unsupported("%s: second operand is not `<array>[v, w]`" % fname)
    if adjoint:
        if li is not None:
            raise T.Unsupported("%s: first operand of the scipy call is not a buffer name" % fname)
        st = found["stuff"]
        # the stuffing statement precedes the use iff, at the first position where the two statement paths differ, it comes first
        before = st["path"][:len(st["path"]) - 1] == acc["path"][:len(st["path"]) - 1] and st["path"][-1] < acc["path"][len(st["path"]) - 1]
        o("/-- %s: first operand of the scipy call (the zero-stuffed buffer) -/\ndef %sLhsArr : ConvArr := %s\n" % (src, prefix, _arr(la)))
        o("/-- %s: `output_kj[slc] = X[v, w]`: the array and slice copied into the buffer, whether the target is `[slc]`,\n"
          "    the loops enclosing the statement, and whether it precedes the use in the same iteration -/\n"
          "def %sBufSrcArr : ConvArr := %s\ndef %sBufSrcIdx : ConvDim × ConvDim := %s\ndef %sBufSliced : Bool := %s\n"
          "def %sStuffScope : List ConvDim := %s\ndef %sStuffBeforeUse : Bool := %s\n" % (
              src, prefix, _arr(st["arr"]), prefix, pair(st["idx"]), prefix, b(st["sliced"]), prefix, lst(st["scope"]), prefix, b(before)))
    else:
        if li is None:
            raise T.Unsupported("%s: first operand is not `<array>[v, w]`" % fname)
        o("/-- %s: first operand -/\ndef %sLhsArr : ConvArr := %s\ndef %sLhsIdx : ConvDim × ConvDim := %s\n" % (src, prefix, _arr(la), prefix, pair(li)))
    o("/-- %s: second operand -/\ndef %sRhsArr : ConvArr := %s\ndef %sRhsIdx : ConvDim × ConvDim := %s\n" % (src, prefix, _arr(ra), prefix, pair(ri)))
    for a in ("data", "filt", "output"):
        l = layout[a]
        o("/-- %s: normalised shape of `%s` -/\ndef %sLayout_%s : ConvDim × ConvDim × ConvTail := (%s, %s, ConvTail.%s)\n" % (
            src, a, prefix, a, _dim(l[0]), _dim(l[1]), l[2]))
    da, dz = alloc[acc["arr"]]
    o("/-- %s: the accumulated array is allocated with `dtype=<this array>.dtype`, by np.zeros (true) / np.empty (false) -/\n"
      "def %sAccDtype : ConvArr := %s\ndef %sAccZeros : Bool := %s\n" % (src, prefix, _arr(da), prefix, b(dz)))
    for a in ("data", "filt", "output"):
        o("/-- %s: the shape expression `%s` is reshaped to / allocated with before the loops -/\ndef %sNorm_%s : List ConvShapeTerm := %s\n" % (
            src, a, prefix, a, _terms(norm[a])))
    fm, fs = final[ret.id]
    o("/-- %s: the shape expression the returned array is reshaped to after the loops (multi_channel / single channel) -/\n"
      "def %sFinalMc : List ConvShapeTerm := %s\ndef %sFinalSc : List ConvShapeTerm := %s\n" % (src, prefix, _terms(fm), prefix, _terms(fs)))
    srcs = []
    for a in shape_args:
        srcs.append("ConvShapeSrc.arrayShape ConvArr.%s" % _ARRS[a[:-6]] if a.endswith(".shape") else "ConvShapeSrc.shapeParam")
    o("/-- %s: the (data shape, filter shape) arguments of its `_get_convolve_params` call -/\n"
      "def %sParamsArgs : ConvShapeSrc × ConvShapeSrc := (%s, %s)\n" % (src, prefix, srcs[0], srcs[1]))
    if adjoint:
        for mo, suf in (("full", "Full"), ("valid", "Valid")):
            da, dz = alloc["output_kj:" + mo]
            o("/-- %s (mode '%s'): dtype source and zero-initialisation of `output_kj` -/\n"
              "def %sBufDtype%s : ConvArr := %s\ndef %sBufZeros%s : Bool := %s\n" % (src, mo, prefix, suf, _arr(da), prefix, suf, b(dz)))


def gen_conv_wiring(ctx=None):
    tree = _parse_conv()
    out = [WIRING_HEADER]
    _wiring(tree, "_convolve", "conv", False, ["data.shape", "filt.shape"], out)
    _wiring(tree, "_convolve_data_adjoint", "dataAdj", True, ["data_shape", "filt.shape"], out)
    _wiring(tree, "_convolve_filter_adjoint", "filtAdj", True, ["data.shape", "filt_shape"], out)
    out.append("end SigpyVerif.Gen\n")
    return "\n".join(out)



# ======================================================================================================
#  Gen/ConvLinops.lean — the four Linop wrappers of sigpy/linop.py
# ======================================================================================================
LINOPS_HEADER = """/- GENERATED by harness/translate/gen_c08.py from sigpy/linop.py — do not edit; regenerated on every check. -/
set_option linter.unusedVariables false
namespace SigpyVerif.Gen

inductive ConvCls where
  | data | dataAdjoint | filter | filterAdjoint
deriving DecidableEq, Repr

/-- shape-valued symbols in a constructor: its own shape argument, the `.shape` of its array argument, the
    `output_shape` it computes from `_get_convolve_params` -/
inductive LinopShape where
  | shapeArg | arrayShape | outputShape
deriving DecidableEq, Repr

/-- positional arguments of the `conv.*` call in `_apply` / of the constructor call in `_adjoint_linop` -/
inductive LinopArg where
  | input | array | oshape | ishape
deriving DecidableEq, Repr

inductive ConvFn where
  | convolve | dataAdjoint | filterAdjoint
deriving DecidableEq, Repr

/-- which array a class freezes -/
inductive LinopArray where
  | filt | data
deriving DecidableEq, Repr

structure ConvLinop where
  /-- the array the constructor takes and stores -/
  array : LinopArray
  /-- `self.<array> = <array>`, `self.mode = mode`, `self.strides = strides`, `self.multi_channel = multi_channel` -/
  stores : Bool
  /-- `_get_convolve_params(<data shape>, <filter shape>, mode, strides, multi_channel)` -/
  paramsArgs : LinopShape × LinopShape
  /-- `output_shape = b + (c_o,) + p if multi_channel else b + p` -/
  outputShapeOk : Bool
  /-- `super().__init__(oshape, ishape)` -/
  superArgs : LinopShape × LinopShape
  applyFn : ConvFn
  applyArgs : List LinopArg
  /-- `mode=self.mode, strides=self.strides, multi_channel=self.multi_channel` in `_apply` -/
  applyPasses : Bool × Bool × Bool
  adjClass : ConvCls
  adjArgs : List LinopArg
  /-- the same three keywords in `_adjoint_linop` -/
  adjPasses : Bool × Bool × Bool
deriving DecidableEq, Repr

"""

_CLS = [("ConvolveData", "data"), ("ConvolveDataAdjoint", "dataAdjoint"), ("ConvolveFilter", "filter"),
        ("ConvolveFilterAdjoint", "filterAdjoint")]
_KW3 = ["mode", "strides", "multi_channel"]


def _self_attr(e, name=None):
    return isinstance(e, ast.Attribute) and _is_name(e.value, "self") and (name is None or e.attr == name)


def _kw_pass(call):
    """keywords must be exactly mode/strides/multi_channel; flag = value is `self.<same name>`"""
    kws = {k.arg: k.value for k in call.keywords}
    if set(kws) != set(_KW3):
        raise T.Unsupported("keywords %s (expected mode, strides, multi_channel)" % sorted(kws, key=str))
    return "(%s)" % ", ".join("true" if _self_attr(kws[k], k) else "false" for k in _KW3)


def _linop(tree, cls):
    init = T.find_function(tree, cls + ".__init__")
    args = [a.arg for a in init.args.args]
    if len(args) != 6 or args[0] != "self" or args[3:] != _KW3 or args[2] not in ("filt", "data") \
            or [ast.unparse(d) for d in init.args.defaults] != ["'full'", "None", "False"]:
        raise T.Unsupported("%s.__init__ signature %s" % (cls, args))
    shp, arrn = args[1], args[2]
    stores = set()
    params = superargs = None
    out_ok = False
    for s in init.body:
        if isinstance(s, ast.Expr) and isinstance(s.value, ast.Constant):
            continue
        if isinstance(s, ast.Assign) and len(s.targets) == 1 and _self_attr(s.targets[0]):
            if not _is_name(s.value, s.targets[0].attr):
                raise T.Unsupported("%s.__init__: %s" % (cls, ast.unparse(s)))
            stores.add(s.targets[0].attr)
        elif isinstance(s, ast.Assign) and isinstance(s.targets[0], ast.Tuple):
            v = s.value
            if [getattr(e, "id", None) for e in s.targets[0].elts] != _PARAM_NAMES or not (
                    isinstance(v, ast.Call) and ast.unparse(v.func) == "conv._get_convolve_params" and not v.keywords
                    and len(v.args) == 5 and [ast.unparse(a) for a in v.args[2:]] == _KW3):
                raise T.Unsupported("%s.__init__: %s" % (cls, ast.unparse(s)[:120]))
            sym = {shp: "shapeArg", arrn + ".shape": "arrayShape"}
            try:
                params = tuple(sym[ast.unparse(a)] for a in v.args[:2])
            except KeyError:
                raise T.Unsupported("%s.__init__: shape arguments of _get_convolve_params: %s" % (cls, ast.unparse(v)[:120]))
        elif isinstance(s, ast.If) and _is_name(s.test, "multi_channel"):
            out_ok = ([ast.unparse(t) for t in s.body] == ["output_shape = b + (c_o,) + p"]
                      and [ast.unparse(t) for t in s.orelse] == ["output_shape = b + p"])
        elif isinstance(s, ast.Expr) and isinstance(s.value, ast.Call) and ast.unparse(s.value.func) == "super().__init__":
            sym = {shp: "shapeArg", "output_shape": "outputShape"}
            try:
                superargs = tuple(sym[ast.unparse(a)] for a in s.value.args)
            except KeyError:
                raise T.Unsupported("%s.__init__: %s" % (cls, ast.unparse(s)[:120]))
            if len(superargs) != 2 or s.value.keywords:
                raise T.Unsupported("%s.__init__: %s" % (cls, ast.unparse(s)[:120]))
        else:
            raise T.Unsupported("%s.__init__: statement outside the subset: %s" % (cls, ast.unparse(s)[:120]))
    if params is None or superargs is None:
        raise T.Unsupported("%s.__init__: _get_convolve_params / super().__init__ call not found" % cls)

    def one_return_call(fn):
        rets = [n for n in ast.walk(fn) if isinstance(n, ast.Return)]
        if len(rets) != 1 or not isinstance(rets[0].value, ast.Call):
            raise T.Unsupported("%s.%s: expected exactly one `return <call>`" % (cls, fn.name))
        return rets[0].value

    # _apply: local names assigned from backend.to_device(self.<array>, device) stand for the array
    ap = T.find_function(tree, cls + "._apply")
    if [a.arg for a in ap.args.args] != ["self", "input"]:
        raise T.Unsupported("%s._apply signature" % cls)
    local = {}
    for n in ast.walk(ap):
        if isinstance(n, ast.Assign) and len(n.targets) == 1 and _is_name(n.targets[0]):
            v = n.value
            if isinstance(v, ast.Call) and ast.unparse(v.func) == "backend.to_device" and len(v.args) == 2 and _self_attr(v.args[0]):
                local[n.targets[0].id] = v.args[0].attr
            elif n.targets[0].id == "device" and ast.unparse(v) == "backend.get_device(input)":
                pass
            else:
                raise T.Unsupported("%s._apply: %s" % (cls, ast.unparse(n)[:100]))

    def argsym(a, where):
        if _is_name(a, "input"):
            return "input"
        if _is_name(a) and local.get(a.id) == arrn:
            return "array"
        if _self_attr(a, arrn):
            return "array"
        if _self_attr(a, "oshape"):
            return "oshape"
        if _self_attr(a, "ishape"):
            return "ishape"
        raise T.Unsupported("%s.%s: argument %s" % (cls, where, ast.unparse(a)[:60]))

    call = one_return_call(ap)
    fnname = ast.unparse(call.func)
    fns = {"conv.convolve": "convolve", "conv.convolve_data_adjoint": "dataAdjoint", "conv.convolve_filter_adjoint": "filterAdjoint"}
    if fnname not in fns:
        raise T.Unsupported("%s._apply calls %s" % (cls, fnname))
    ap_args = [argsym(a, "_apply") for a in call.args]
    ap_pass = _kw_pass(call)
    adj = T.find_function(tree, cls + "._adjoint_linop")
    call2 = one_return_call(adj)
    if len(adj.body) != 1 or not _is_name(call2.func) or call2.func.id not in dict(_CLS):
        raise T.Unsupported("%s._adjoint_linop: %s" % (cls, ast.unparse(adj)[:120]))
    adj_args = [argsym(a, "_adjoint_linop") for a in call2.args]
    return ("{ array := LinopArray.%s, stores := %s, paramsArgs := (LinopShape.%s, LinopShape.%s), outputShapeOk := %s,\n"
            "      superArgs := (LinopShape.%s, LinopShape.%s), applyFn := ConvFn.%s, applyArgs := [%s], applyPasses := %s,\n"
            "      adjClass := ConvCls.%s, adjArgs := [%s], adjPasses := %s }" % (
                arrn, "true" if stores == {arrn, "mode", "strides", "multi_channel"} else "false", params[0], params[1],
                "true" if out_ok else "false", superargs[0], superargs[1], fns[fnname],
                ", ".join("LinopArg." + a for a in ap_args), ap_pass, dict(_CLS)[call2.func.id],
                ", ".join("LinopArg." + a for a in adj_args), _kw_pass(call2)))


def gen_conv_linops(ctx=None):
    tree = G._parse("sigpy/linop.py")
    out = [LINOPS_HEADER]
    out.append("/-- generated from the classes ConvolveData / ConvolveDataAdjoint / ConvolveFilter / ConvolveFilterAdjoint -/\n"
               "def convLinop : ConvCls → ConvLinop")
    for cls, lean in _CLS:
        out.append("  | ConvCls.%s =>  -- %s\n    %s" % (lean, cls, _linop(tree, cls)))
    out.append("\nend SigpyVerif.Gen\n")
    return "\n".join(out)



# ======================================================================================================
#  Gen/ConvParams.lean — how `_get_convolve_params` splits the two shapes into b, m, n, c_i, c_o
# ======================================================================================================
PARAMS_HEADER = """/- GENERATED by harness/translate/gen_c08.py from sigpy/conv.py — do not edit; regenerated on every check. -/
import SigpyVerif.Model.Py
set_option linter.unusedVariables false
namespace SigpyVerif.Gen
open SigpyVerif

/-- the two shape arguments of `_get_convolve_params` -/
inductive ConvShapeArg where
  | dataShape | filtShape
deriving DecidableEq, Repr

/-- the explicit `raise` statements of `_get_convolve_params`: channel-count check (multi_channel), length of `strides`,
    the size test of mode 'valid', the `else` of the mode chain -/
inductive ConvGuard where
  | channel | stridesLen | validSize | badMode
deriving DecidableEq, Repr

"""


class _Subst(ast.NodeTransformer):
    """`len(filt_shape)` -> lenF, `len(data_shape)` -> lenD (so that T.formula sees plain int variables)"""

    def visit_Call(self, n):
        if _is_name(n.func, "len") and len(n.args) == 1 and _is_name(n.args[0]) and n.args[0].id in ("filt_shape", "data_shape", "strides"):
            return ast.copy_location(ast.Name(id={"filt_shape": "lenF", "data_shape": "lenD", "strides": "lenS"}[n.args[0].id], ctx=ast.Load()), n)
        return self.generic_visit(n)


def _pf(e, names):
    return T.formula(_Subst().visit(ast.parse(ast.unparse(e), mode="eval").body), names)


def _shape_arg(e):
    if _is_name(e) and e.id in ("data_shape", "filt_shape"):
        return "ConvShapeArg." + ("dataShape" if e.id == "data_shape" else "filtShape")
    raise T.Unsupported("not data_shape / filt_shape: %s" % ast.unparse(e)[:60])


def _item(e):
    """`X_shape[E]` -> (shape arg, Lean formula of E over D, multi_channel)"""
    if isinstance(e, ast.Subscript) and not isinstance(e.slice, (ast.Slice, ast.Tuple)):
        return _shape_arg(e.value), _pf(e.slice, ["D", "multi_channel"])
    raise T.Unsupported("not an item of a shape: %s" % ast.unparse(e)[:60])


def gen_conv_params(ctx=None):
    tree = _parse_conv()
    fn = T.find_function(tree, "_get_convolve_params")
    if [a.arg for a in fn.args.args] != ["data_shape", "filt_shape", "mode", "strides", "multi_channel"]:
        raise T.Unsupported("_get_convolve_params signature")
    body = [s for s in fn.body if not (isinstance(s, ast.Expr) and isinstance(s.value, ast.Constant))]
    out = [PARAMS_HEADER]
    o = out.append
    got = {}
    i = 0
    # leading simple assignments: D, m, n, b, B (any order, each once)
    while i < len(body) and isinstance(body[i], ast.Assign) and len(body[i].targets) == 1 and _is_name(body[i].targets[0]):
        name, v = body[i].targets[0].id, body[i].value
        if name in got:
            raise T.Unsupported("_get_convolve_params: %s assigned twice" % name)
        if name == "D":
            got[name] = "def paramD (lenD lenF multi_channel : Int) : Int := %s\n" % _pf(v, ["lenD", "lenF", "multi_channel"])
        elif name in ("m", "n", "b"):
            if not (isinstance(v, ast.Call) and _is_name(v.func, "tuple") and len(v.args) == 1 and isinstance(v.args[0], ast.Subscript)
                    and isinstance(v.args[0].slice, ast.Slice) and v.args[0].slice.step is None):
                raise T.Unsupported("_get_convolve_params: %s is not tuple(<shape>[lo:hi])" % name)
            sl = v.args[0].slice
            if "D" not in got:
                raise T.Unsupported("_get_convolve_params: %s computed before D" % name)
            if name in ("m", "n") and sl.lower is not None and sl.upper is None:
                got[name] = ("/-- `%s = tuple(%s)`: the source shape and the lower slice bound -/\n"
                             "def param%sSrc : ConvShapeArg := %s\ndef param%sLo (D multi_channel : Int) : Int := %s\n" % (
                                 name, ast.unparse(v.args[0]), name.upper(), _shape_arg(v.args[0].value), name.upper(),
                                 _pf(sl.lower, ["D", "multi_channel"])))
            elif name == "b" and sl.lower is None and sl.upper is not None:
                got[name] = ("/-- `b = tuple(%s)`: the source shape and the upper slice bound -/\n"
                             "def paramBSrc : ConvShapeArg := %s\ndef paramBHi (D multi_channel : Int) : Int := %s\n" % (
                                 ast.unparse(v.args[0]), _shape_arg(v.args[0].value), _pf(sl.upper, ["D", "multi_channel"])))
            else:
                raise T.Unsupported("_get_convolve_params: slice form of %s" % name)
        elif name == "B":
            if ast.unparse(v) != "util.prod(b)":
                raise T.Unsupported("_get_convolve_params: B is not util.prod(b)")
            got[name] = ""
        else:
            break
        i += 1
    if set(got) != {"D", "m", "n", "b", "B"}:
        raise T.Unsupported("_get_convolve_params: D, m, n, b, B not all found at the start (%s)" % sorted(got))
    o("/-- generated from `_get_convolve_params`: `D = %s` -/\n%s" % ("len(filt_shape) - …", got["D"]))
    for k in ("m", "n", "b"):
        o(got[k])
    # if multi_channel: <check>; c_i = …; c_o = …  else: c_i = 1; c_o = 1
    s = body[i] if i < len(body) else None
    if not (isinstance(s, ast.If) and _is_name(s.test, "multi_channel") and len(s.body) == 3 and len(s.orelse) == 2):
        raise T.Unsupported("_get_convolve_params: `if multi_channel:` block not found after the shape split")
    chk, a1, a2 = s.body
    if not (isinstance(chk, ast.If) and not chk.orelse and len(chk.body) == 1 and isinstance(chk.body[0], ast.Raise)
            and isinstance(chk.test, ast.Compare) and len(chk.test.ops) == 1 and isinstance(chk.test.ops[0], ast.NotEq)):
        raise T.Unsupported("_get_convolve_params: channel check is not `if X[..] != Y[..]: raise ValueError`")
    (ls, li), (rs, ri) = _item(chk.test.left), _item(chk.test.comparators[0])
    o("/-- `if <lhs shape>[i] != <rhs shape>[j]: raise ValueError` (multi_channel only) -/\n"
      "def paramChkLhsSrc : ConvShapeArg := %s\ndef paramChkLhsIdx (D multi_channel : Int) : Int := %s\n"
      "def paramChkRhsSrc : ConvShapeArg := %s\ndef paramChkRhsIdx (D multi_channel : Int) : Int := %s\n" % (ls, li, rs, ri))
    for st, want in ((a1, "c_i"), (a2, "c_o")):
        if not (isinstance(st, ast.Assign) and len(st.targets) == 1 and _is_name(st.targets[0], want)):
            raise T.Unsupported("_get_convolve_params: expected `%s = <shape>[..]`" % want)
        src, idx = _item(st.value)
        nm_ = "Ci" if want == "c_i" else "Co"
        o("/-- `%s` (multi_channel) -/\ndef param%sSrc : ConvShapeArg := %s\ndef param%sIdx (D multi_channel : Int) : Int := %s\n" % (
            ast.unparse(st), nm_, src, nm_, idx))
    for st, want in zip(s.orelse, ("c_i", "c_o")):
        if not (isinstance(st, ast.Assign) and len(st.targets) == 1 and _is_name(st.targets[0], want)
                and isinstance(st.value, ast.Constant) and isinstance(st.value.value, int) and not isinstance(st.value.value, bool)):
            raise T.Unsupported("_get_convolve_params: expected `%s = <int>` in the single-channel branch" % want)
        o("/-- `%s` (single channel) -/\ndef param%sDefault : Int := (%d : Int)\n" % (ast.unparse(st), "Ci" if want == "c_i" else "Co", st.value.value))
    i += 1
    # strides: `if strides is None: s = (c,) * D else: if <test on len(strides), D>: raise X; s = tuple(strides)`
    s = body[i] if i < len(body) else None
    ok = (isinstance(s, ast.If) and ast.unparse(s.test) == "strides is None" and len(s.body) == 1
          and isinstance(s.body[0], ast.Assign) and len(s.body[0].targets) == 1 and _is_name(s.body[0].targets[0], "s")
          and len(s.orelse) == 2 and isinstance(s.orelse[0], ast.If)
          and not s.orelse[0].orelse and len(s.orelse[0].body) == 1 and isinstance(s.orelse[0].body[0], ast.Raise)
          and ast.unparse(s.orelse[1]) == "s = tuple(strides)")
    if not ok:
        raise T.Unsupported("_get_convolve_params: strides block is not `s = (c,) * D if strides is None else tuple(strides)` with a length check")
    dv = s.body[0].value
    if isinstance(dv, ast.BinOp) and isinstance(dv.op, ast.Mult) and _is_name(dv.left, "D"):
        dv = ast.BinOp(left=dv.right, op=dv.op, right=dv.left)
    if not (isinstance(dv, ast.BinOp) and isinstance(dv.op, ast.Mult) and _is_name(dv.right, "D") and isinstance(dv.left, ast.Tuple)
            and len(dv.left.elts) == 1 and isinstance(dv.left.elts[0], ast.Constant) and type(dv.left.elts[0].value) is int):
        raise T.Unsupported("_get_convolve_params: default strides are not `(c,) * D`: %s" % ast.unparse(s.body[0])[:80])
    o("/-- `%s` (strides is None) -/\ndef paramStridesDefault (D : Int) : List Int := List.replicate D.toNat (%d : Int)\n" % (
        ast.unparse(s.body[0]), dv.left.elts[0].value))
    tst = _Subst().visit(ast.parse(ast.unparse(s.orelse[0].test), mode="eval").body)
    o("/-- `if %s: raise …` (strides given): true = the guard fires; `lenS = len(strides)` -/\n"
      "def paramStridesBad (lenS D : Int) : Bool := decide %s\n" % (
          ast.unparse(s.orelse[0].test), T.Expr({"lenS": T.INT, "D": T.INT}).cond(tst)))
    strides_raise = s.orelse[0].body[0]
    i += 1
    # mode block (formulas: Gen.ConvFormulas) and the return
    if not (i + 2 == len(body) and isinstance(body[i], ast.If) and isinstance(body[i + 1], ast.Return)
            and ast.unparse(body[i + 1].value) == "(D, b, B, m, n, s, c_i, c_o, p)"):
        raise T.Unsupported("_get_convolve_params: expected the mode block and `return D, b, B, m, n, s, c_i, c_o, p` at the end")
    # guard table: every `raise` of the function, in source order, classified by where it stands
    br = _mode_branches(fn)
    mode_if = body[i]
    valid_if = mode_if.orelse[0] if len(mode_if.orelse) == 1 and isinstance(mode_if.orelse[0], ast.If) else None
    if valid_if is None or mode_if.body is not br["full"] or valid_if.body is not br["valid"] or len(valid_if.orelse) != 1 \
            or not isinstance(valid_if.orelse[0], ast.Raise):
        raise T.Unsupported("_get_convolve_params: mode chain is not `if mode == 'full': … elif mode == 'valid': … else: raise …`")
    rej = [t for t in br["valid"] if isinstance(t, ast.If) and len(t.body) == 1 and isinstance(t.body[0], ast.Raise) and not t.orelse]
    if len(rej) != 1:
        raise T.Unsupported("_get_convolve_params: valid branch: expected one `if …: raise`")
    known = {id(chk.body[0]): "channel", id(strides_raise): "stridesLen", id(rej[0].body[0]): "validSize",
             id(valid_if.orelse[0]): "badMode"}
    raises = sorted([n for n in ast.walk(fn) if isinstance(n, ast.Raise)], key=lambda n: (n.lineno, n.col_offset))
    rows = []
    for r in raises:
        if id(r) not in known:
            raise T.Unsupported("_get_convolve_params: a `raise` outside the four known guards (line %d)" % r.lineno)
        if not (isinstance(r.exc, ast.Call) and _is_name(r.exc.func)):
            raise T.Unsupported("_get_convolve_params: `raise` of something other than `Exc(...)`")
        rows.append('(ConvGuard.%s, "%s")' % (known[id(r)], r.exc.func.id))
    o("/-- every explicit `raise` of `_get_convolve_params`, in source order, with the exception class it raises -/\n"
      "def paramGuards : List (ConvGuard × String) := [%s]\n" % ", ".join(rows))
    out.append("end SigpyVerif.Gen\n")
    return "\n".join(out)


GENERATORS = {"ConvFormulas": gen_conv_formulas, "ConvWiring": gen_conv_wiring, "ConvLinops": gen_conv_linops,
              "ConvParams": gen_conv_params}
