"""Translator plugin for C15 (machines): the `_update` bodies of the Alg subclasses of sigpy/alg.py that no
other plugin translates (PowerMethod, GradientMethod, AltMin, AugmentedLagrangianMethod, ADMM, NewtonsMethod,
GerchbergSaxton; ConjugateGradient is `Gen.C12`, PrimalDualHybridGradient is sequenced from `Gen.C13`), the stopping
block of `SDMM._update`, `Alg.update` and the loop of `App.run` (sigpy/app.py), as Lean definitions in
`Gen/C15Mach.lean` over the vocabulary of Model/C15Base.lean.

A small symbolic executor (same design as gen_c12): the statements of a body are walked IN SOURCE ORDER; every
assignment / in-place update becomes one Lean `let` whose right-hand side is the translation of the Python expression
over the values current at that point; `if` becomes `if` / `match` with the rest of the function inside each branch;
`while` becomes `whileFuel` over the tuple of the names its body assigns; `raise` becomes `Res.raised`; a leaf is the
record of the object's attributes at that point.  Arrays are OBJECTS (a name bound without `.copy()` shares the object;
`util.axpy`, `backend.copyto`, `+=`, `-=` update the object).  The signatures of the generated definitions are fixed
by the class tables below; everything the tables do not know (a statement kind, call, operator, attribute, an in-place
update of a call result) raises `Unsupported` = a broken `translate:` obligation, never a pass.
"""
import ast
import re

from harness.translate import py2lean as T
from harness.translate import gen as G
from harness.translate import norm_alg as N

V, S, I, B = "V", "S", "Int", "Bool"


def U(msg):
    return T.Unsupported("C15 machines: " + msg)


def key(e):
    if isinstance(e, ast.Name):
        return e.id
    if isinstance(e, ast.Attribute) and isinstance(e.value, ast.Name) and e.value.id == "self":
        return "self." + e.attr
    return None


class Val:
    def __init__(self, typ, term=None, obj=None, **kw):
        self.typ, self.term, self.obj = typ, term, obj
        self.__dict__.update(kw)


class Env:
    def __init__(self, sh):
        self.vars, self.heap, self.known, self.lines, self.sh = {}, {}, {}, None, sh

    def copy(self):
        e = Env(self.sh)
        e.vars, e.known = dict(self.vars), dict(self.known)
        e.heap = {k: dict(o) for k, o in self.heap.items()}
        return e

    def new_obj(self, term, origin):
        self.sh["nobj"] += 1
        self.heap[self.sh["nobj"]] = dict(term=term, origin=origin)
        return self.sh["nobj"]

    def fresh(self, base):
        base = re.sub(r"[^A-Za-z0-9_]", "", base.replace("self.", "")) or "t"
        n = self.sh["names"].get(base, 0) + 1
        self.sh["names"][base] = n
        return "%s_%d" % (base, n)


IDENT = re.compile(r"[A-Za-z_][A-Za-z0-9_.']*")


def _balanced(s):
    d = 0
    for ch in s:
        d += ch == "("
        d -= ch == ")"
        if d < 0:
            return False
    return d == 0


def _strip(t):
    return t[1:-1] if t.startswith("(") and t.endswith(")") and _balanced(t[1:-1]) else t


def _indent(s, n=2):
    return "\n".join(" " * n + ln for ln in s.split("\n"))


def tuple_type(ts):
    return " × ".join(ts)


def proj(base, i, n):
    """i-th component of the right-nested n-tuple `base`"""
    if n == 1:
        return base
    return base + ".2" * i + (".1" if i < n - 1 else "")


class Exec:
    def __init__(self, tree, cls, spec):
        self.tree, self.cls, self.spec = tree, cls, spec
        self.sh = {"nobj": 0, "names": {}}
        self.res = spec.get("res", False)

    # ------------------------------------------------------------------ values
    def vterm(self, env, v):
        if v.typ != V:
            raise U("%s: expected an array, got %s" % (self.cls, v.typ))
        return env.heap[v.obj]["term"]

    def sterm(self, v):
        if v.typ == S:
            return v.term
        if v.typ == I and re.fullmatch(r"\d+", v.term):
            return "((%s : Nat) : S)" % v.term
        raise U("%s: expected a scalar, got %s (%s)" % (self.cls, v.typ, v.term))

    def newv(self, env, term, origin="fresh"):
        return Val(V, obj=env.new_obj(term, origin))

    def ev(self, env, e):
        k = key(e)
        if k is not None:
            if k not in env.vars:
                raise U("%s._update reads %s, which is not part of the modelled state at this point" % (self.cls, k))
            return env.vars[k]
        if isinstance(e, ast.Constant):
            if isinstance(e.value, bool):
                return Val(B, "true" if e.value else "false")
            if isinstance(e.value, int) and e.value >= 0:
                return Val(I, "%d" % e.value)
            if e.value is None:
                return Val("NONE", "none")
            raise U("constant %r" % (e.value,))
        if isinstance(e, ast.Attribute):
            b = self.ev(env, e.value)
            if b.typ == "OP" and e.attr == "H":
                if b.adj is None:
                    raise U("adjoint of %s" % ast.unparse(e.value))
                return Val("OP", fwd=b.adj, adj=b.fwd)
            if b.typ == "OP" and e.attr == "ishape":
                return Val("SHAPE", "ishape")
            if b.typ == "CG" and e.attr == "x":
                return self.newv(env, "%s.x" % b.term, "cgx")
            raise U("attribute %s" % ast.unparse(e))
        if isinstance(e, ast.UnaryOp):
            a = self.ev(env, e.operand)
            if isinstance(e.op, ast.USub):
                if a.typ == V:
                    return self.newv(env, "(o.neg %s)" % self.vterm(env, a))
                return Val(S, "(-%s)" % self.sterm(a))
            if isinstance(e.op, ast.Not) and a.typ == B:
                return Val(B, "(!%s)" % a.term)
            raise U("unary %s on %s" % (type(e.op).__name__, a.typ))
        if isinstance(e, ast.BinOp):
            return self.binop(env, e)
        if isinstance(e, ast.Call):
            return self.call(env, e)
        if isinstance(e, ast.Compare):
            return self.compare(env, e)
        raise U("expression %s" % ast.unparse(e)[:80])

    def binop(self, env, e):
        if isinstance(e.op, ast.Pow):
            a = self.ev(env, e.left)
            r = e.right
            if isinstance(r, ast.Constant) and isinstance(r.value, float) and r.value == 0.5:
                return Val(S, "(sqrt %s)" % self.sterm(a))
            if isinstance(r, ast.Constant) and isinstance(r.value, int) and not isinstance(r.value, bool) and r.value == 2:
                t = self.sterm(a)
                return Val(S, "(%s * %s)" % (t, t))
            raise U("power %s" % ast.unparse(e))
        a, b = self.ev(env, e.left), self.ev(env, e.right)
        op = type(e.op)
        if a.typ == "OP" or b.typ == "OP":
            return self.opalg(env, op, a, b, e)
        if op in (ast.Add, ast.Sub):
            if a.typ == V and b.typ == V:
                return self.newv(env, "(o.%s %s %s)" % ("add" if op is ast.Add else "sub", self.vterm(env, a), self.vterm(env, b)))
            if a.typ in (S, I) and b.typ in (S, I):
                return Val(S, "(%s %s %s)" % (self.sterm(a), "+" if op is ast.Add else "-", self.sterm(b)))
        if op is ast.Mult:
            if a.typ in (S, I) and b.typ == V:
                return self.newv(env, "(o.smul %s %s)" % (self.sterm(a), self.vterm(env, b)))
            if a.typ == V and b.typ in (S, I):
                return self.newv(env, "(o.smul %s %s)" % (self.sterm(b), self.vterm(env, a)))
            if a.typ == V and b.typ == V:
                return self.newv(env, "(o.mul %s %s)" % (self.vterm(env, a), self.vterm(env, b)))
            if a.typ in (S, I) and b.typ in (S, I):
                return Val(S, "(%s * %s)" % (self.sterm(a), self.sterm(b)))
        if op is ast.Div:
            if a.typ == V and b.typ in (S, I):
                return self.newv(env, "(o.divs %s %s)" % (self.vterm(env, a), self.sterm(b)))
            if a.typ in (S, I) and b.typ in (S, I):
                return Val(S, "(%s / %s)" % (self.sterm(a), self.sterm(b)))
        raise U("operator %s on %s and %s in `%s`" % (op.__name__, a.typ, b.typ, ast.unparse(e)))

    def opalg(self, env, op, a, b, e):
        """Linop algebra: A * x (apply), A * B (compose), s * A, A + B"""
        if op is ast.Mult and a.typ == "OP" and b.typ == V:
            return self.newv(env, a.fwd(self.vterm(env, b)), "call")
        if op is ast.Mult and a.typ == "OP" and b.typ == "OP":
            return Val("OP", fwd=lambda v: a.fwd(b.fwd(v)),
                       adj=(lambda v: b.adj(a.adj(v))) if a.adj and b.adj else None)
        if op is ast.Mult and a.typ in (S, I) and b.typ == "OP":
            s = self.sterm(a)
            return Val("OP", fwd=lambda v: "(o.smul %s %s)" % (s, b.fwd(v)), adj=None)
        if op is ast.Add and a.typ == "OP" and b.typ == "OP":
            return Val("OP", fwd=lambda v: "(o.add %s %s)" % (a.fwd(v), b.fwd(v)), adj=None)
        raise U("operator algebra `%s`" % ast.unparse(e))

    def call(self, env, e):
        f = e.func
        src = ast.unparse(e)
        fs = ast.unparse(f)
        if isinstance(f, ast.Attribute) and f.attr in ("copy", "item") and not e.args and not e.keywords and key(f) is None:
            a = self.ev(env, f.value)
            if f.attr == "copy" and a.typ == V:
                return self.newv(env, self.vterm(env, a))
            if f.attr == "item" and a.typ == S:
                return a
            raise U("%s of a %s" % (f.attr, a.typ))
        if e.keywords and fs != "ConjugateGradient":
            raise U("keyword arguments in %s" % src)
        if fs == "xp.linalg.norm" and len(e.args) == 1:
            return Val(S, "(o.norm %s)" % self.vterm(env, self.ev(env, e.args[0])))
        if fs == "xp.real" and len(e.args) == 1:
            g = e.args[0]
            if isinstance(g, ast.Call) and ast.unparse(g.func) == "xp.vdot" and len(g.args) == 2 and not g.keywords:
                a, b = self.ev(env, g.args[0]), self.ev(env, g.args[1])
                return Val(S, "(o.rdot %s %s)" % (self.vterm(env, a), self.vterm(env, b)))
            raise U("`%s` (only xp.real(xp.vdot(u, v)))" % src)
        if fs == "xp.clip" and len(e.args) == 3:
            lo, hi = e.args[1], e.args[2]
            if isinstance(lo, ast.Constant) and lo.value == 0 and not isinstance(lo.value, bool) and ast.unparse(hi) == "np.inf":
                return self.newv(env, "(o.relu %s)" % self.vterm(env, self.ev(env, e.args[0])))
            raise U("`%s` (only xp.clip(v, 0, np.inf))" % src)
        if fs == "xp.exp" and len(e.args) == 1:
            g = e.args[0]
            if isinstance(g, ast.BinOp) and isinstance(g.op, ast.Mult) and isinstance(g.left, ast.Constant) and g.left.value == 1j \
                    and isinstance(g.right, ast.Call) and ast.unparse(g.right.func) == "xp.angle" and len(g.right.args) == 1:
                return self.newv(env, "(o.phase %s)" % self.vterm(env, self.ev(env, g.right.args[0])))
            raise U("`%s` (only xp.exp(1j * xp.angle(v)))" % src)
        if fs == "xp.absolute" and len(e.args) == 1:
            return self.newv(env, "(o.vabs %s)" % self.vterm(env, self.ev(env, e.args[0])))
        if fs == "xp.sum" and len(e.args) == 1:
            g = e.args[0]
            if isinstance(g, ast.Call) and ast.unparse(g.func) == "xp.absolute" and len(g.args) == 1:
                return Val(S, "(o.norm1 %s)" % self.vterm(env, self.ev(env, g.args[0])))
            raise U("`%s` (only xp.sum(xp.absolute(v)))" % src)
        if fs == "sp.linop.Identity" and len(e.args) == 1:
            if self.ev(env, e.args[0]).typ != "SHAPE":
                raise U("`%s`" % src)
            return Val("OP", fwd=lambda v: v, adj=lambda v: v)
        if fs == "ConjugateGradient":
            return self.new_cg(env, e)
        # alg_internal.done()
        if isinstance(f, ast.Attribute) and f.attr == "done" and not e.args:
            a = self.ev(env, f.value)
            if a.typ == "CG":
                return Val(B, "(Gen.C12.done co %s %s %s)" % (a.max_iter, a.tol, a.term))
        # curried call  self.inv_hessf(x)(g)
        if isinstance(f, ast.Call):
            k2 = key(f.func)
            if k2 in env.vars and env.vars[k2].typ == "FN" and env.vars[k2].curried and len(f.args) == 1 and len(e.args) == 1 \
                    and not f.keywords:
                fn = env.vars[k2]
                a, b = self.ev(env, f.args[0]), self.ev(env, e.args[0])
                return self.newv(env, "(%s %s %s)" % (fn.term, self.vterm(env, a), self.vterm(env, b)), "call")
        k = key(f)
        if k in env.vars and env.vars[k].typ in ("FN", "OPTFN"):
            fn = env.vars[k]
            name = fn.term
            if fn.typ == "OPTFN":
                if env.known.get(k) is not True:
                    raise U("%s is called where it may be None" % k)
                name = fn.term + "_f"
            if fn.__dict__.get("curried"):
                raise U("partial application of %s" % k)
            if len(e.args) != len(fn.args):
                raise U("arity of %s" % src)
            ts = []
            for a, want in zip(e.args, fn.args):
                v = self.ev(env, a)
                ts.append(self.vterm(env, v) if want == V else self.sterm(v))
            t = "(%s %s)" % (name, " ".join(ts))
            return self.newv(env, t, "call") if fn.ret == V else Val(S, t)
        raise U("call %s" % src[:70])

    def new_cg(self, env, e):
        """`ConjugateGradient(A, b, x, max_iter=k)`: the object is `Gen.C12.init`; P, tol: the defaults of its __init__"""
        cg = T.find_function(self.tree, "ConjugateGradient.__init__")
        names = [a.arg for a in cg.args.args]
        if names != ["self", "A", "b", "x", "P", "max_iter", "tol"] or cg.args.vararg or cg.args.kwarg or cg.args.kwonlyargs:
            raise U("ConjugateGradient.__init__ signature %s" % names)
        dflt = dict(zip(names[-len(cg.args.defaults):], cg.args.defaults))
        got = dict(zip(names[1:], e.args))
        for kw in e.keywords:
            if kw.arg in got or kw.arg not in names:
                raise U("ConjugateGradient(...) argument %s" % kw.arg)
            got[kw.arg] = kw.value
        for n in ("A", "b", "x"):
            if n not in got:
                raise U("ConjugateGradient(...) without %s" % n)
        P = got.get("P", dflt["P"])
        if not (isinstance(P, ast.Constant) and P.value is None):
            raise U("inner ConjugateGradient with a preconditioner")
        mi = got.get("max_iter", dflt["max_iter"])
        tol = got.get("tol", dflt["tol"])
        if not (isinstance(mi, ast.Constant) and isinstance(mi.value, int) and not isinstance(mi.value, bool)):
            raise U("inner ConjugateGradient max_iter is not an integer literal")
        if not (isinstance(tol, ast.Constant) and isinstance(tol.value, int) and not isinstance(tol.value, bool) and tol.value >= 0):
            raise U("inner ConjugateGradient tol is not a non-negative integer literal")
        A = self.ev(env, got["A"])
        if A.typ != "OP":
            raise U("inner ConjugateGradient operator")
        b, x = self.ev(env, got["b"]), self.ev(env, got["x"])
        afn = "(fun w => %s)" % _strip(A.fwd("w"))
        term = "(Gen.C12.init co %s none %s %s %d)" % (afn, self.vterm(env, b), self.vterm(env, x), mi.value)
        return Val("CG", term, A=afn, max_iter="%d" % mi.value, tol="((%d : Nat) : S)" % tol.value)

    def compare(self, env, e):
        if len(e.ops) != 1:
            raise U("chained comparison")
        a, b = self.ev(env, e.left), self.ev(env, e.comparators[0])
        if a.typ in (S, I) and b.typ in (S, I) and not (a.typ == I and b.typ == I):
            if isinstance(e.ops[0], ast.Lt):
                return Val("PROP", "(%s < %s)" % (self.sterm(a), self.sterm(b)))
            if isinstance(e.ops[0], ast.Gt):
                return Val("PROP", "(%s < %s)" % (self.sterm(b), self.sterm(a)))
        raise U("comparison `%s` (scalars with < or > only)" % ast.unparse(e))

    # ------------------------------------------------------------------ statements
    def bind(self, env, k, v, hint=None):
        if k.startswith("self.") and k in self.spec.get("consts", {}):
            raise U("%s._update assigns %s" % (self.cls, k))
        if k.startswith("self.") and k != "self.iter" and k[5:] not in [f for f, _ in (self.spec["fields"] or [])]:
            raise U("%s._update assigns the unmodelled attribute %s" % (self.cls, k))
        if k in ("o", "co", "s", "st", "fuel", "sqrt", "xp", "device", "self"):
            raise U("assignment to %s" % k)
        if v.typ == "OP" and not k.startswith("self."):
            env.vars[k] = v      # a Linop expression bound to a local name stays symbolic
            return
        if v.typ == V:
            ob = env.heap[v.obj]
            if not IDENT.fullmatch(ob["term"]):
                nm = env.fresh(hint or k)
                env.lines.append("let %s := %s" % (nm, _strip(ob["term"])))
                ob["term"] = nm
        elif v.typ in (S, I, B, "CG") and not (IDENT.fullmatch(v.term) or re.fullmatch(r"\d+", v.term)):
            nm = env.fresh(hint or k)
            env.lines.append("let %s := %s" % (nm, _strip(v.term)))
            nv = Val(v.typ, nm)
            nv.__dict__.update({a: b for a, b in v.__dict__.items() if a not in ("typ", "term", "obj")})
            v = nv
        elif v.typ not in (V, S, I, B, "CG"):
            raise U("binding %s to a %s" % (k, v.typ))
        want = dict(self.spec["fields"] or []).get(k[5:]) if k.startswith("self.") and k != "self.iter" else None
        if k == "self.iter":
            want = I
        if want is not None:
            if want == S and v.typ == I:
                v = Val(S, self.sterm(v))
            if v.typ != want:
                raise U("%s becomes a %s (modelled as %s)" % (k, v.typ, want))
        env.vars[k] = v

    def inplace(self, env, tgt, new_term, src):
        v = self.ev(env, tgt)
        if v.typ != V:
            raise U("in-place update of a %s in `%s`" % (v.typ, src))
        ob = env.heap[v.obj]
        if ob["origin"] == "call":
            raise U("`%s` updates in place the result of a call, which may be the call's argument itself" % src)
        nm = env.fresh(key(tgt) or "t")
        env.lines.append("let %s := %s" % (nm, _strip(new_term)))
        ob["term"] = nm

    def data_record(self, env):
        f = self.spec["fields"]
        if f is None:
            return env.vars["$d"].term
        parts = []
        for name, typ in f:
            v = env.vars.get("self." + name)
            if v is None or v.typ != typ:
                raise U("%s: attribute %s is %s, modelled as %s" % (self.cls, name, v.typ if v else "unset", typ))
            parts.append("%s := %s" % (name, env.heap[v.obj]["term"] if typ == V else v.term))
        return "{ " + ", ".join(parts) + " }"

    def load_data(self, env, d):
        f = self.spec["fields"]
        if f is None:
            env.vars["$d"] = Val("D", d)
            return
        for name, typ in f:
            env.vars["self." + name] = self.newv(env, "%s.%s" % (d, name), "state") if typ == V else Val(typ, "%s.%s" % (d, name))

    def leaf(self, env):
        it = env.vars["self.iter"]
        if it.typ != I:
            raise U("self.iter is a %s" % it.typ)
        rec = "{ iter := %s, d := %s }" % (it.term, self.data_record(env))
        return "Res.ok %s" % rec if self.res else rec

    def simple(self, st, env):
        """a statement without control flow; appends to env.lines"""
        lines = env.lines
        src = ast.unparse(st).split("\n")[0]
        n0 = len(lines)
        if isinstance(st, ast.Assign):
            if len(st.targets) != 1:
                raise U("multiple assignment")
            tk = key(st.targets[0])
            if tk is None:
                raise U("assignment to %s" % ast.unparse(st.targets[0]))
            vs = ast.unparse(st.value)
            if (tk == "xp" and vs in ("device.xp", "self.device.xp")) or \
                    (tk == "device" and re.fullmatch(r"backend\.get_device\((self\.)?\w+\)", vs)):
                return
            self.bind(env, tk, self.ev(env, st.value))
        elif isinstance(st, ast.AugAssign):
            tk = key(st.target)
            if tk is None:
                raise U("augmented assignment `%s`" % src)
            cur = self.ev(env, st.target)
            d = self.ev(env, st.value)
            if cur.typ == I and d.typ == I and isinstance(st.op, (ast.Add, ast.Sub)):
                self.bind(env, tk, Val(I, "(%s %s %s)" % (cur.term, "+" if isinstance(st.op, ast.Add) else "-", d.term)))
            elif cur.typ == S and isinstance(st.op, (ast.Add, ast.Sub, ast.Mult, ast.Div)):
                sym = {ast.Add: "+", ast.Sub: "-", ast.Mult: "*", ast.Div: "/"}[type(st.op)]
                self.bind(env, tk, Val(S, "(%s %s %s)" % (cur.term, sym, self.sterm(d))))
            elif cur.typ == I and d.typ == S and isinstance(st.op, (ast.Mult,)):
                self.bind(env, tk, Val(S, "(%s * %s)" % (self.sterm(cur), d.term)))
            elif cur.typ == V and d.typ == V and isinstance(st.op, (ast.Add, ast.Sub)):
                self.inplace(env, st.target, "o.%s %s %s" % ("add" if isinstance(st.op, ast.Add) else "sub",
                                                             self.vterm(env, cur), self.vterm(env, d)), src)
            else:
                raise U("augmented assignment `%s`" % src)
        elif isinstance(st, ast.Expr) and isinstance(st.value, ast.Call):
            c = st.value
            cs = ast.unparse(c.func)
            if cs == "util.axpy" and len(c.args) == 3 and not c.keywords:
                y, a, x = self.ev(env, c.args[0]), self.ev(env, c.args[1]), self.ev(env, c.args[2])
                self.inplace(env, c.args[0], "o.add %s (o.smul %s %s)" % (self.vterm(env, y), self.sterm(a), self.vterm(env, x)), src)
            elif cs == "backend.copyto" and len(c.args) == 2 and not c.keywords:
                x = self.ev(env, c.args[1])
                self.inplace(env, c.args[0], self.vterm(env, x), src)
            elif key(c.func) in env.vars and env.vars[key(c.func)].typ == "CB" and not c.args and not c.keywords:
                nm = env.fresh("d")
                lines.append("let %s := %s %s" % (nm, env.vars[key(c.func)].term, self.data_record(env)))
                self.load_data(env, nm)
            elif isinstance(c.func, ast.Attribute) and c.func.attr == "update" and not c.args and not c.keywords \
                    and key(c.func.value) in env.vars and env.vars[key(c.func.value)].typ == "CG":
                k = key(c.func.value)
                a = env.vars[k]
                nv = Val("CG", "(Gen.C12.update co %s none %s %s)" % (a.A, a.max_iter, a.term), A=a.A, max_iter=a.max_iter, tol=a.tol)
                self.bind(env, k, nv)
            else:
                raise U("statement `%s`" % src)
        else:
            raise U("statement kind %s (`%s`)" % (type(st).__name__, src))
        if len(lines) > n0:
            lines[n0] += " " * max(1, 70 - len(lines[n0])) + "-- " + src
        else:
            lines.append("-- " + src)

    def block(self, stmts, env, k):
        lines = env.lines = []
        for i, st in enumerate(stmts):
            rest = stmts[i + 1:]
            if isinstance(st, ast.Expr) and isinstance(st.value, ast.Constant) and isinstance(st.value.value, str):
                continue
            if isinstance(st, ast.Pass):
                continue
            if isinstance(st, ast.With):
                if len(st.items) != 1 or ast.unparse(st.items[0]) not in ("self.device", "device"):
                    raise U("with %s" % ast.unparse(st.items[0]))
                return "\n".join(lines + [self.block(st.body, env, lambda e: self.block(rest, e, k))])
            if isinstance(st, ast.Return):
                if rest or st.value is not None:
                    raise U("return with a value / dead code in %s._update" % self.cls)
                return "\n".join(lines + [self.leaf(env)])
            if isinstance(st, ast.Raise):
                if rest:
                    raise U("dead code after raise")
                if not self.res:
                    raise U("%s._update raises" % self.cls)
                return "\n".join(lines + ["Res.raised" + " " * 10 + "-- " + ast.unparse(st).split("\n")[0][:60]])
            if isinstance(st, ast.If):
                return "\n".join(lines + [self.branch(st, rest, env, k)])
            if isinstance(st, ast.While):
                return "\n".join(lines + [self.loop(st, rest, env, k)])
            self.simple(st, env)
        return "\n".join(lines + [k(env)])

    def branch(self, st, rest, env, k):
        t = st.test
        src = "-- if %s:" % ast.unparse(t)
        cont = lambda e: self.block(rest, e, k)  # noqa: E731
        tk = key(t.left) if isinstance(t, ast.Compare) else key(t)
        if isinstance(t, ast.Compare) and len(t.ops) == 1 and isinstance(t.ops[0], (ast.Is, ast.IsNot)) and tk in env.vars \
                and isinstance(t.comparators[0], ast.Constant) and t.comparators[0].value is None:
            pv = env.vars[tk]
            if pv.typ != "OPTFN":
                raise U("`%s` on a %s" % (ast.unparse(t), pv.typ))
            none_b, some_b = (st.body, st.orelse) if isinstance(t.ops[0], ast.Is) else (st.orelse, st.body)
            if tk in env.known:
                return self.block(some_b if env.known[tk] else none_b, env, cont)
            en, es = env.copy(), env.copy()
            en.known[tk], es.known[tk] = False, True
            return "match %s with %s\n| none =>\n%s\n| some %s_f =>\n%s" % (
                pv.term, src, _indent(self.block(none_b, en, cont)), pv.term, _indent(self.block(some_b, es, cont)))
        if tk in env.vars and env.vars[tk].typ == "BCONST" and not isinstance(t, ast.Compare):
            if tk in env.known:
                return self.block(st.body if env.known[tk] else st.orelse, env, cont)
            et, ee = env.copy(), env.copy()
            et.known[tk], ee.known[tk] = True, False
            return "if %s then %s\n%s\nelse\n%s" % (env.vars[tk].term, src, _indent(self.block(st.body, et, cont)),
                                                    _indent(self.block(st.orelse, ee, cont)))
        c = self.ev(env, t)
        if c.typ != "PROP":
            raise U("condition `%s`" % ast.unparse(t))
        et, ee = env.copy(), env.copy()
        return "if %s then %s\n%s\nelse\n%s" % (_strip(c.term), src, _indent(self.block(st.body, et, cont)),
                                                _indent(self.block(st.orelse, ee, cont)))

    def carried(self, body):
        out = []
        for st in body:
            if isinstance(st, ast.Assign) and len(st.targets) == 1 and key(st.targets[0]):
                kk = key(st.targets[0])
            elif isinstance(st, ast.AugAssign) and key(st.target):
                kk = key(st.target)
            elif isinstance(st, ast.Expr) and isinstance(st.value, ast.Call) and isinstance(st.value.func, ast.Attribute) \
                    and st.value.func.attr == "update" and key(st.value.func.value):
                kk = key(st.value.func.value)
            else:
                raise U("statement `%s` in a while body" % ast.unparse(st).split("\n")[0])
            if kk not in out:
                out.append(kk)
        return out

    def loop(self, st, rest, env, k):
        if not self.res or st.orelse:
            raise U("while loop in %s._update" % self.cls)
        keys = self.carried(st.body)
        n = len(keys)
        for kk in keys:
            if kk not in env.vars:
                raise U("while body assigns %s, which is not bound before the loop" % kk)
        tys, init = [], []
        for kk in keys:
            v = env.vars[kk]
            if v.typ == I:   # e.g. alpha = 1 then alpha *= beta: a scalar
                v = Val(S, self.sterm(v))
                env.vars[kk] = v
            tys.append({V: "V", S: "S", "CG": "C12.State V S"}.get(v.typ) or self._bad(kk, v))
            init.append(self.vterm(env, v) if v.typ == V else v.term)
        tt = tuple_type(tys)

        def enter(base):
            e2 = env.copy()
            for i, kk in enumerate(keys):
                v = env.vars[kk]
                p = proj(base, i, n)
                if v.typ == V:
                    e2.vars[kk] = self.newv(e2, p, "loop")
                else:
                    nv = Val(v.typ, p)
                    nv.__dict__.update({a: b for a, b in v.__dict__.items() if a not in ("typ", "term", "obj")})
                    e2.vars[kk] = nv
            return e2
        ec = enter("st")
        ec.lines = []
        c = self.ev(ec, st.test)
        if ec.lines:
            raise U("while test with side effects")
        cond = "decide %s" % c.term if c.typ == "PROP" else (c.term if c.typ == B else self._bad("while test", c))
        eb = enter("st")
        eb.lines = []
        for s2 in st.body:
            self.simple(s2, eb)
        outs = []
        for kk in keys:
            v = eb.vars[kk]
            outs.append(self.vterm(eb, v) if v.typ == V else v.term)
        body = "\n".join(eb.lines + ["(" + ", ".join(outs) + ")"])
        nm = env.fresh("st")
        ea = enter(nm)
        tail = self.block(rest, ea, k)
        return ("match whileFuel (fun (st : %s) => %s)  -- while %s:\n    (fun (st : %s) =>\n%s)\n    fuel (%s) with\n"
                "| none => Res.nofuel\n| some %s =>\n%s") % (tt, cond, ast.unparse(st.test), tt, _indent(body, 6), ", ".join(init), nm,
                                                             _indent(tail))

    def _bad(self, what, v):
        raise U("%s is a %s" % (what, v.typ))


# ---------------------------------------------------------------------------------------------------
# class tables: fixed signatures
# ---------------------------------------------------------------------------------------------------
def FN(name, args, ret, curried=False):
    return Val("FN", name, args=args, ret=ret, curried=curried)


def OPTFN(name, args, ret):
    return Val("OPTFN", name, args=args, ret=ret)


def lean_fn_type(v, data):
    if v.typ == "CB":
        return "%s → %s" % (data, data)
    t = " → ".join(list(v.args) + [v.ret])
    return "Option (%s)" % t if v.typ == "OPTFN" else t


SPECS = {
    "PowerMethod": dict(
        data="PMData V S", fields=[("x", V), ("max_eig", S)], ops=True,
        consts={"self.A": FN("A", [V], V), "self.norm_func": OPTFN("norm_func", [V], S)}),
    "GradientMethod": dict(
        data="GMData V S", fields=[("x", V), ("z", V), ("t", S), ("resid", S)], ops=True, sqrt=True,
        consts={"self.gradf": FN("gradf", [V], V), "self.proxg": OPTFN("proxg", [S, V], V), "self.alpha": Val(S, "alpha"),
                "self.accelerate": Val("BCONST", "accelerate")}),
    "AltMin": dict(
        data="D", fields=None, ops=False, tvars="{D : Type}",
        consts={"self.min1": Val("CB", "min1"), "self.min2": Val("CB", "min2")}),
    "AugmentedLagrangianMethod": dict(
        data="ALMData V", fields=[("x", V), ("u", V), ("v", V)], ops=True,
        consts={"self.minL": Val("CB", "minL"), "self.g": OPTFN("g", [V], V), "self.h": OPTFN("h", [V], V), "self.mu": Val(S, "mu")}),
    "ADMM": dict(
        data="ADMMData V", fields=[("x", V), ("z", V), ("u", V)], ops=True,
        consts={"self.minL_x": Val("CB", "minL_x"), "self.minL_z": Val("CB", "minL_z"), "self.A": FN("A", [V], V),
                "self.B": FN("B", [V], V), "self.c": Val(V, "c")}),
    "NewtonsMethod": dict(
        data="NMData V S", fields=[("x", V), ("lamda2", S), ("residual", S)], ops=True, sqrt=True, res=True, fuel=True,
        consts={"self.gradf": FN("gradf", [V], V), "self.inv_hessf": FN("inv_hessf", [V, V], V, curried=True),
                "self.f": FN("f", [V], S), "self.beta": Val(S, "beta")}),
    "GerchbergSaxton": dict(
        data="GSData V S", fields=[("x", V), ("residual", S)], ops=True, res=True, fuel=True, cg=True, keep={"b"},
        consts={"self.A": Val("OP", fwd=lambda v: "(A %s)" % v, adj=lambda v: "(AH %s)" % v), "self.y": Val(V, "y"),
                "self.lamb": Val(S, "lamb")},
        extra_params="(A AH : V → V) (y : V) (lamb : S)"),
}

SCALAR_CLASSES = ("variable {V S : Type} [Add S] [Sub S] [Mul S] [Div S] [Neg S] [NatCast S] [LT S] "
                  "[∀ a b : S, Decidable (a < b)]\n")


def params_of(cls, spec):
    ps = []
    if spec.get("ops"):
        ps.append("(o : MOps V S)")
    if spec.get("cg"):
        ps.append("(co : C12.Ops V S)")
    if spec.get("sqrt"):
        ps.append("(sqrt : S → S)")
    if "extra_params" in spec:
        ps.append(spec["extra_params"])
    else:
        for k, v in spec["consts"].items():
            if v.typ in ("FN", "OPTFN", "CB"):
                ps.append("(%s : %s)" % (v.term, lean_fn_type(v, spec["data"])))
            elif v.typ == S:
                ps.append("(%s : S)" % v.term)
            elif v.typ == V:
                ps.append("(%s : V)" % v.term)
            elif v.typ == "BCONST":
                ps.append("(%s : Bool)" % v.term)
    if spec.get("fuel"):
        ps.append("(fuel : Nat)")
    return " ".join(ps)


def census(cls_node, name):
    if [ast.unparse(b) for b in cls_node.bases] != ["Alg"]:
        raise U("%s: base classes %s" % (name, [ast.unparse(b) for b in cls_node.bases]))
    for n in cls_node.body:
        if isinstance(n, ast.FunctionDef):
            if n.decorator_list:
                raise U("%s: decorated method %s" % (name, n.name))
            if n.name in ("update", "done"):
                raise U("%s overrides %s()" % (name, n.name))
        elif not (isinstance(n, ast.Expr) and isinstance(n.value, ast.Constant)):
            raise U("%s: class-level statement %s" % (name, ast.unparse(n)[:60]))


def gen_update(tree, name):
    spec = SPECS[name]
    cls = T.find_function(tree, name)
    if not isinstance(cls, ast.ClassDef):
        raise U("%s is not a class" % name)
    census(cls, name)
    fn = T.find_function(cls, "_update")
    if [a.arg for a in fn.args.args] != ["self"] or fn.args.vararg or fn.args.kwarg or fn.args.kwonlyargs:
        raise U("%s._update signature" % name)
    # spelling normal form (harness/translate/norm_alg.py): keywords of util.axpy / backend.copyto made positional against
    # the callee's `def`, private single-expression helpers substituted, single-assignment temporaries with a pure
    # right-hand side inlined (so that naming a subexpression does not change the `let` chain the theorems are about).
    # `keep`: the locals of the committed source that are such temporaries themselves.
    fn = N.normalise_update(tree, name, fn, keep=spec.get("keep", ()),
                            model_pure={k for k, v in spec["consts"].items() if v.typ in ("FN", "OPTFN") and not v.__dict__.get("curried")})
    ex = Exec(tree, name, spec)
    env = Env(ex.sh)
    for k, v in spec["consts"].items():
        if v.typ == V:
            env.vars[k] = Val(V, obj=env.new_obj(v.term, "const"))
        else:
            env.vars[k] = v
    env.vars["self.iter"] = Val(I, "s.iter")
    ex.load_data(env, "s.d")
    body = ex.block(list(fn.body), env, lambda e: ex.leaf(e))
    ret = "AlgSt (%s)" % spec["data"]
    if spec.get("res"):
        ret = "Res (%s)" % ret
    tv = spec.get("tvars", "")
    return "/-- generated from `%s._update` -/\ndef upd%s %s %s (s : AlgSt (%s)) : %s :=\n%s\n" % (
        name, name, tv, params_of(name, spec), spec["data"], ret, _indent(body))


def gen_alg_update(tree):
    """`Alg.update`: a sequence of `self._update()` and `self.iter += c` / `-= c` statements"""
    fn = T.find_function(tree, "Alg.update")
    if [a.arg for a in fn.args.args] != ["self"]:
        raise U("Alg.update signature")
    lines, linesR = [], []
    cur, n = "s", 0
    seen_update = 0
    pend = []   # statements after the (single) `_update` call, for the Res version
    for st in fn.body:
        if isinstance(st, ast.Expr) and isinstance(st.value, ast.Constant):
            continue
        src = ast.unparse(st)
        n += 1
        nm = "s_%d" % n
        if src == "self._update()":
            if seen_update:
                raise U("Alg.update calls _update twice")
            seen_update = 1
            lines.append("let %s := upd_ %s" % (nm, cur) + " " * 30 + "-- " + src)
            linesR.append("match upd_ %s with" % cur + " " * 30 + "-- " + src)
            linesR.append("| Res.raised => Res.raised\n| Res.nofuel => Res.nofuel\n| Res.ok %s =>" % nm)
        elif isinstance(st, ast.AugAssign) and key(st.target) == "self.iter" and isinstance(st.op, (ast.Add, ast.Sub)) \
                and isinstance(st.value, ast.Constant) and isinstance(st.value.value, int) and not isinstance(st.value.value, bool):
            ln = "let %s : AlgSt D := { iter := %s.iter %s %d, d := %s.d }" % (nm, cur, "+" if isinstance(st.op, ast.Add) else "-",
                                                                             st.value.value, cur) + " " * 6 + "-- " + src
            lines.append(ln)
            linesR.append(ln)
        else:
            raise U("Alg.update statement `%s`" % src)
        cur = nm
    if not seen_update:
        raise U("Alg.update does not call self._update()")
    lines.append(cur)
    linesR.append("Res.ok " + cur)
    # the Res version nests everything after the match arm
    out = "/-- generated from `Alg.update` -/\ndef algUpdate {D : Type} (upd_ : AlgSt D → AlgSt D) (s : AlgSt D) : AlgSt D :=\n%s\n\n" % _indent(
        "\n".join(lines))
    i = [j for j, ln in enumerate(linesR) if ln.startswith("| Res.raised")][0]
    head, tail = linesR[:i + 1], linesR[i + 1:]
    out += ("/-- generated from `Alg.update`, for an `_update` that can raise / loop: the statements after a failed "
            "`_update` do not run -/\ndef algUpdateR {D : Type} (upd_ : AlgSt D → Res (AlgSt D)) (s : AlgSt D) : Res (AlgSt D) :=\n%s\n%s\n"
            % (_indent("\n".join(head)), _indent("\n".join(tail), 4)))
    return out


def _mentions_alg(node):
    for n in ast.walk(node):
        if isinstance(n, ast.Attribute) and isinstance(n.value, ast.Name) and n.value.id == "self" and n.attr == "alg":
            return True
    return False


def _alg_reads_only(node):
    """every mention of self.alg inside `node` is a read of max_iter / __class__ (progress bar text)"""
    ok_parents = set()
    for n in ast.walk(node):
        if isinstance(n, ast.Attribute) and isinstance(n.value, ast.Attribute) and key(n.value) == "self.alg" \
                and n.attr in ("max_iter", "__class__") and isinstance(n.ctx, ast.Load):
            ok_parents.add(id(n.value))
    for n in ast.walk(node):
        if isinstance(n, ast.Attribute) and key(n) == "self.alg" and id(n) not in ok_parents:
            return False
    for n in ast.walk(node):
        if isinstance(n, (ast.Break, ast.Continue, ast.Return, ast.While, ast.For, ast.Raise)):
            return False
        if isinstance(n, (ast.Assign, ast.AugAssign)):
            for t in (n.targets if isinstance(n, ast.Assign) else [n.target]):
                for sub in ast.walk(t):
                    if key(sub) == "self.alg":
                        return False
    return True


HOOKS = {"self._pre_update()": "pre", "self.alg.update()": "update", "self._post_update()": "post", "self._summarize()": "summarize"}


def gen_app_run():
    """`App.run`: bookkeeping statements (progress bar, timing) are accepted only if they do not touch `self.alg`
    (beyond reading max_iter / __class__); the rest must be `while not self.alg.done(): <hooks and alg.update()>` and
    `return self._output()`."""
    tree = G._parse("sigpy/app.py")
    fn = T.find_function(tree, "App.run")
    if [a.arg for a in fn.args.args] != ["self"]:
        raise U("App.run signature")
    loop, ret, after = None, None, False
    for st in fn.body:
        if isinstance(st, ast.Expr) and isinstance(st.value, ast.Constant):
            continue
        if isinstance(st, ast.While):
            if loop is not None:
                raise U("App.run: two loops")
            loop = st
            continue
        if isinstance(st, ast.Return):
            if ast.unparse(st) != "return self._output()" or loop is None:
                raise U("App.run: `%s`" % ast.unparse(st))
            ret = st
            after = True
            continue
        if after:
            raise U("App.run: code after return")
        if isinstance(st, ast.If) and ast.unparse(st.test) in ("self.show_pbar", "self.record_time") and _alg_reads_only(st):
            continue
        raise U("App.run: statement `%s`" % ast.unparse(st).split("\n")[0])
    if loop is None or ret is None or loop.orelse:
        raise U("App.run: no `while … / return self._output()`")
    if ast.unparse(loop.test) != "not self.alg.done()":
        raise U("App.run loop test `%s`" % ast.unparse(loop.test))
    seq = []
    for st in loop.body:
        src = ast.unparse(st)
        if src in HOOKS:
            seq.append((HOOKS[src], src))
            continue
        if isinstance(st, ast.If) and ast.unparse(st.test) in ("self.show_pbar", "self.record_time") and _alg_reads_only(st) \
                and not any(ast.unparse(n) in HOOKS for n in ast.walk(st) if isinstance(n, ast.Expr)):
            continue
        raise U("App.run loop statement `%s`" % src.split("\n")[0])
    lines, cur = [], "s"
    for i, (h, src) in enumerate(seq):
        nm = "s_%d" % (i + 1)
        lines.append("let %s := %s %s" % (nm, h, cur) + " " * 30 + "-- " + src)
        cur = nm
    lines.append(cur)
    n_upd = sum(1 for h, _ in seq if h == "update")
    out = ("/-- generated from the body of the `while` loop of `App.run` (hooks and `self.alg.update()` in source order; the "
           "progress-bar and timing statements do not touch `self.alg`) -/\n"
           "def appRunPass {σ : Type} (pre update post summarize : σ → σ) (s : σ) : σ :=\n%s\n\n" % _indent("\n".join(lines)))
    out += ("/-- generated from `while not self.alg.done():` of `App.run` -/\n"
            "def appRunTest {σ : Type} (done : σ → Bool) (s : σ) : Bool := !(done s)\n\n")
    out += ("/-- `App.run` up to `return self._output()`: the loop with fuel (`none` = the fuel ran out) -/\n"
            "def appRun {σ : Type} (done : σ → Bool) (pre update post summarize : σ → σ) (fuel : Nat) (s : σ) : Option σ :=\n"
            "  whileFuel (appRunTest done) (appRunPass pre update post summarize) fuel s\n\n")
    out += "/-- number of `self.alg.update()` statements in the loop body -/\ndef appRunUpdates : Nat := %d\n" % n_upd
    return out


# ---------------------------------------------------------------------------------------------------
# SDMM: the stopping block of `_update`
# ---------------------------------------------------------------------------------------------------
def gen_sdmm_stop(tree):
    """From `self.stop = True` to the end of `SDMM._update`: every write to `self.stop` must be `self.stop = False`
    guarded by `norm(r) > self.eps_pri or norm(s) > self.eps_dual`, once per constraint block (the `for` over `self.L`,
    `if self.c_norm is not None`, `if self.c_max is not None`).  The generated function takes the norms."""
    cls = T.find_function(tree, "SDMM")
    census(cls, "SDMM")
    fn = T.find_function(cls, "_update")
    flat = []

    def walk(stmts, ctx):
        for st in stmts:
            if isinstance(st, ast.With):
                walk(st.body, ctx)
            else:
                flat.append((st, ctx))
    walk(fn.body, ())
    idx = [i for i, (st, _) in enumerate(flat) if isinstance(st, ast.Assign) and key(st.targets[0]) == "self.stop"]
    if len(idx) != 1 or ast.unparse(flat[idx[0]][0]) != "self.stop = True":
        raise U("SDMM._update: expected exactly one top-level `self.stop = True`")
    for st, _ in flat[:idx[0]]:
        for n in ast.walk(st):
            if isinstance(n, (ast.Assign, ast.AugAssign)):
                for t in (n.targets if isinstance(n, ast.Assign) else [n.target]):
                    if any(key(s2) == "self.stop" for s2 in ast.walk(t)):
                        raise U("SDMM._update writes self.stop before the stopping block")
    guard_src = "xp.linalg.norm(r) > self.eps_pri or xp.linalg.norm(s) > self.eps_dual"

    def block_ok(body):
        """body of one constraint block: exactly one `if <guard>: self.stop = False`; no other write to self.stop"""
        n_guard = 0
        for st in body:
            if isinstance(st, ast.If) and ast.unparse(st.test) == guard_src:
                if [ast.unparse(b) for b in st.body] != ["self.stop = False"] or st.orelse:
                    raise U("SDMM stopping block: guarded statement `%s`" % ast.unparse(st.body[0]))
                n_guard += 1
                continue
            for n in ast.walk(st):
                if isinstance(n, (ast.Assign, ast.AugAssign)):
                    for t in (n.targets if isinstance(n, ast.Assign) else [n.target]):
                        if any(key(s2) == "self.stop" for s2 in ast.walk(t)):
                            raise U("SDMM stopping block: unguarded write `%s`" % ast.unparse(n))
                if isinstance(n, (ast.Break, ast.Continue, ast.Return, ast.Raise, ast.While)):
                    raise U("SDMM stopping block: control flow")
        if n_guard != 1:
            raise U("SDMM stopping block: %d guards in one constraint block" % n_guard)
    lines = ["let stop_0 := true" + " " * 40 + "-- self.stop = True"]
    cur = 0
    kinds = []
    for st, _ in flat[idx[0] + 1:]:
        src = ast.unparse(st).split("\n")[0]
        if isinstance(st, ast.Assign) and src == "rMax, sMax = (0, 0)":
            continue
        if isinstance(st, ast.For) and ast.unparse(st.target) == "ii" and ast.unparse(st.iter) == "range(len(self.L))" and not st.orelse:
            block_ok(st.body)
            lines.append("let stop_%d := rsL.foldl (fun stop rs => if decide (eps_pri < rs.1) || decide (eps_dual < rs.2) then false else stop) stop_%d"
                         % (cur + 1, cur) + "  -- " + src)
            kinds.append("L")
        elif isinstance(st, ast.If) and ast.unparse(st.test) in ("self.c_norm is not None", "self.c_max is not None") and not st.orelse:
            block_ok(st.body)
            nm = "rsNorm" if "c_norm" in ast.unparse(st.test) else "rsMax"
            lines.append("let stop_%d := match %s with | none => stop_%d | some rs => if decide (eps_pri < rs.1) || decide (eps_dual < rs.2) then false else stop_%d"
                         % (cur + 1, nm, cur, cur) + "  -- " + src)
            kinds.append(nm)
        else:
            raise U("SDMM stopping block: statement `%s`" % src)
        cur += 1
    if sorted(kinds) != ["L", "rsMax", "rsNorm"]:
        raise U("SDMM stopping block: constraint blocks %s" % kinds)
    lines.append("stop_%d" % cur)
    return ("/-- generated from the stopping block of `SDMM._update` (from `self.stop = True` to the end): the value of\n"
            "    `self.stop` after the update, given per constraint the norms `(‖r‖, ‖s‖)` the block computes (`rsL`: the `for`\n"
            "    over `self.L`; `rsNorm` / `rsMax`: `none` when `c_norm` / `c_max` is `None`) -/\n"
            "def sdmmStop (eps_pri eps_dual : S) (rsL : List (S × S)) (rsNorm rsMax : Option (S × S)) : Bool :=\n%s\n"
            % _indent("\n".join(lines)))


HEADER = ("/- GENERATED by harness/translate/gen_c15m.py from sigpy/alg.py (the `_update` bodies, Alg.update) and sigpy/app.py "
          "(App.run) — do not edit; regenerated on every check. -/\nimport SigpyVerif.Model.C15Base\n"
          "set_option linter.unusedVariables false\nnamespace SigpyVerif.Gen.C15M\nopen SigpyVerif SigpyVerif.C15\n\n")

MACHINES = ["PowerMethod", "GradientMethod", "AltMin", "AugmentedLagrangianMethod", "ADMM", "NewtonsMethod", "GerchbergSaxton"]


def gen_c15mach(ctx=None):
    tree = G._parse("sigpy/alg.py")
    out = [HEADER, SCALAR_CLASSES]
    out.append(gen_alg_update(tree))
    for name in MACHINES:
        out.append(gen_update(tree, name))
    out.append(gen_sdmm_stop(tree))
    out.append(gen_app_run())
    out.append("end SigpyVerif.Gen.C15M\n")
    return "\n".join(out)


GENERATORS = {"C15Mach": gen_c15mach}
