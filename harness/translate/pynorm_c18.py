"""Source normalisation for the C18 translator (harness/translate/gen_c18.py).

Semantics-preserving AST -> AST rewrites applied to one function of sigpy/mri/samp.py *before* gen_c18 locates the
statements it translates, so that harmless spellings of the same program give the same generated Lean definitions:

  N1  calls to small private module-level helpers defined in the same file are replaced by the helper's body
      (`t = _h(a, k=b)` statement-wise for a straight-line body ending in one `return`; anywhere inside an expression
      for a helper that is a single `return <expr>`); positional / keyword / default arguments are resolved against the
      helper's signature.
  N2  `if not c: A else: B`  ->  `if c: B else: A`  (also for conditional expressions).
  N3  single-assignment temporaries and loop-invariant hoists (`n_max = max(nx, ny)`) that are not part of the
      translator's vocabulary (`keep`) are substituted into their uses.

Everything here is FAIL-CLOSED in the sense the translator needs: a rewrite is applied only when its side conditions
are established syntactically; otherwise the source is left as it is (and gen_c18 then raises `Unsupported` on the
name / call it does not know = broken obligation), or `Unsupported` is raised here (recursion, decorators, ...).  No
rewrite drops or invents a computation: a semantic change of the source is still a semantic change of the normalised
tree.

Trusted side condition of N3 (stated in harness/mkmanifest.py): a tuple-like parameter read with a constant index
(`img_shape[-1]`) is not mutated by a callee between the hoisted definition and its uses.
"""
import ast
import copy

from harness.translate import py2lean as T

U = T.Unsupported

PURE_CALLS = {"max", "min", "abs", "int", "float", "len", "bool"}
MAX_HELPER_STMTS = 12
MAX_INLINE_ROUNDS = 4


# ------------------------------------------------------------------------------------------------ helpers
def _blocks(node):
    """statement lists directly owned by a statement"""
    for fld in ("body", "orelse", "finalbody"):
        sub = getattr(node, fld, None)
        if isinstance(sub, list) and sub and isinstance(sub[0], ast.stmt):
            yield sub
    for h in getattr(node, "handlers", []) or []:
        yield h.body


def _names(node, ctx=None):
    return [n for n in ast.walk(node) if isinstance(n, ast.Name) and (ctx is None or isinstance(n.ctx, ctx))]


def _params(fn):
    a = fn.args
    return [p.arg for p in a.posonlyargs + a.args + a.kwonlyargs] + \
           ([a.vararg.arg] if a.vararg else []) + ([a.kwarg.arg] if a.kwarg else [])


def _binding_counts(fn):
    """name -> number of binding occurrences in fn (parameters count once)"""
    cnt = {}
    for p in _params(fn):
        cnt[p] = cnt.get(p, 0) + 1
    for n in ast.walk(fn):
        if isinstance(n, ast.Name) and isinstance(n.ctx, (ast.Store, ast.Del)):
            cnt[n.id] = cnt.get(n.id, 0) + 1
        elif isinstance(n, ast.AugAssign) and isinstance(n.target, ast.Name):
            cnt[n.target.id] = cnt.get(n.target.id, 0) + 1   # read-modify-write: a second binding
        elif isinstance(n, (ast.Import, ast.ImportFrom)):
            for al in n.names:
                k = (al.asname or al.name).split(".")[0]
                cnt[k] = cnt.get(k, 0) + 2
        elif isinstance(n, ast.ExceptHandler) and n.name:
            cnt[n.name] = cnt.get(n.name, 0) + 2
        elif isinstance(n, (ast.FunctionDef, ast.AsyncFunctionDef, ast.ClassDef)) and n is not fn:
            cnt[n.name] = cnt.get(n.name, 0) + 2
    return cnt


def _mutated(fn):
    """names whose object is (possibly) mutated in place: base of a stored subscript / attribute, aug-assigned"""
    out = set()
    for n in ast.walk(fn):
        tgt = None
        if isinstance(n, (ast.Subscript, ast.Attribute)) and isinstance(n.ctx, (ast.Store, ast.Del)):
            tgt = n
        elif isinstance(n, ast.AugAssign):
            tgt = n.target
        while isinstance(tgt, (ast.Subscript, ast.Attribute)):
            tgt = tgt.value
        if isinstance(tgt, ast.Name):
            out.add(tgt.id)
    return out


def _scoping_hazard(fn):
    for n in ast.walk(fn):
        if isinstance(n, (ast.Global, ast.Nonlocal, ast.Yield, ast.YieldFrom, ast.Await, ast.Lambda,
                          ast.NamedExpr)):
            return type(n).__name__
        if isinstance(n, (ast.FunctionDef, ast.AsyncFunctionDef, ast.ClassDef)) and n is not fn:
            return "nested " + type(n).__name__
        if isinstance(n, (ast.ListComp, ast.SetComp, ast.DictComp, ast.GeneratorExp)):
            return "comprehension"
    return None


def is_pure(e, ok_sub):
    """expression of the pure, deterministic subset (no calls except PURE_CALLS, constant-index reads of `ok_sub`)"""
    if isinstance(e, ast.Constant):
        return isinstance(e.value, (int, float, bool)) or e.value is None
    if isinstance(e, ast.Name):
        return isinstance(e.ctx, ast.Load)
    if isinstance(e, ast.BinOp):
        return not isinstance(e.op, ast.MatMult) and is_pure(e.left, ok_sub) and is_pure(e.right, ok_sub)
    if isinstance(e, ast.UnaryOp):
        return is_pure(e.operand, ok_sub)
    if isinstance(e, ast.BoolOp):
        return all(is_pure(v, ok_sub) for v in e.values)
    if isinstance(e, ast.Compare):
        return all(isinstance(o, (ast.Lt, ast.LtE, ast.Gt, ast.GtE, ast.Eq, ast.NotEq)) for o in e.ops) \
            and is_pure(e.left, ok_sub) and all(is_pure(c, ok_sub) for c in e.comparators)
    if isinstance(e, ast.IfExp):
        return is_pure(e.test, ok_sub) and is_pure(e.body, ok_sub) and is_pure(e.orelse, ok_sub)
    if isinstance(e, ast.Tuple):
        return isinstance(e.ctx, ast.Load) and all(is_pure(v, ok_sub) for v in e.elts)
    if isinstance(e, ast.Subscript):
        idx = e.slice
        if isinstance(idx, ast.UnaryOp) and isinstance(idx.op, ast.USub):
            idx = idx.operand
        return isinstance(e.ctx, ast.Load) and isinstance(e.value, ast.Name) and (ok_sub is None or e.value.id in ok_sub) \
            and isinstance(idx, ast.Constant) and isinstance(idx.value, int) and not isinstance(idx.value, bool)
    if isinstance(e, ast.Call):
        return isinstance(e.func, ast.Name) and e.func.id in PURE_CALLS and not e.keywords \
            and all(is_pure(a, ok_sub) for a in e.args) and not any(isinstance(a, ast.Starred) for a in e.args)
    return False


class _Subst(ast.NodeTransformer):
    """replace loaded names by expressions (deep copies); refuses a store to a substituted name"""

    def __init__(self, mapping):
        self.mapping = mapping
        self.count = {k: 0 for k in mapping}

    def visit_Name(self, n):
        if n.id in self.mapping:
            if not isinstance(n.ctx, ast.Load):
                raise U("normalise: store to substituted name %s" % n.id)
            self.count[n.id] += 1
            return copy.deepcopy(self.mapping[n.id])
        return n


class _Rename(ast.NodeTransformer):
    def __init__(self, mapping):
        self.mapping = mapping

    def visit_Name(self, n):
        if n.id in self.mapping:
            return ast.copy_location(ast.Name(id=self.mapping[n.id], ctx=n.ctx), n)
        return n


# ------------------------------------------------------------------------------------------------ N1 helpers
def _module_helpers(tree, exclude):
    """private module-level functions that qualify for inlining: name -> FunctionDef"""
    out = {}
    for s in tree.body:
        if isinstance(s, ast.FunctionDef) and s.name.startswith("_") and not s.name.startswith("__") \
                and s.name not in exclude:
            out[s.name] = s
    return out


def _helper_body(h):
    """(straight-line statements, return expression) of an inlinable helper, else raise Unsupported"""
    if h.decorator_list:
        raise U("normalise: helper %s is decorated (cache / jit wrappers are not inlined)" % h.name)
    a = h.args
    if a.vararg or a.kwarg or a.posonlyargs:
        raise U("normalise: helper %s has *args/**kwargs/positional-only parameters" % h.name)
    hz = _scoping_hazard(h)
    if hz:
        raise U("normalise: helper %s contains %s" % (h.name, hz))
    body = list(h.body)
    if body and isinstance(body[0], ast.Expr) and isinstance(body[0].value, ast.Constant) \
            and isinstance(body[0].value.value, str):
        body = body[1:]
    if not body or not isinstance(body[-1], ast.Return) or body[-1].value is None:
        raise U("normalise: helper %s does not end in `return <expr>`" % h.name)
    if len(body) > MAX_HELPER_STMTS:
        raise U("normalise: helper %s is not small" % h.name)
    for s in body[:-1]:
        if not isinstance(s, (ast.Assign, ast.AugAssign)):
            raise U("normalise: helper %s: statement %s outside the straight-line subset" % (h.name, type(s).__name__))
        for n in ast.walk(s):
            if isinstance(n, ast.Return):
                raise U("normalise: helper %s has an early return" % h.name)
    for n in ast.walk(h):
        if isinstance(n, ast.Call) and isinstance(n.func, ast.Name) and n.func.id == h.name:
            raise U("normalise: helper %s is recursive" % h.name)
    return body[:-1], body[-1].value


def _bind_args(h, call):
    """parameter name -> argument expression, resolved against the helper's signature"""
    if any(isinstance(x, ast.Starred) for x in call.args) or any(k.arg is None for k in call.keywords):
        raise U("normalise: call of %s with * / ** arguments" % h.name)
    a = h.args
    pos = [p.arg for p in a.args]
    kwonly = [p.arg for p in a.kwonlyargs]
    if len(call.args) > len(pos):
        raise U("normalise: too many positional arguments for %s" % h.name)
    bound = {}
    for p, v in zip(pos, call.args):
        bound[p] = v
    for k in call.keywords:
        if k.arg in bound or k.arg not in pos + kwonly:
            raise U("normalise: bad keyword %s for %s" % (k.arg, h.name))
        bound[k.arg] = k.value
    defaults = dict(zip(pos[len(pos) - len(a.defaults):], a.defaults))
    defaults.update({p: d for p, d in zip(kwonly, a.kw_defaults) if d is not None})
    for p in pos + kwonly:
        if p not in bound:
            if p not in defaults:
                raise U("normalise: missing argument %s for %s" % (p, h.name))
            if not isinstance(defaults[p], ast.Constant):
                raise U("normalise: non-constant default of %s in %s" % (p, h.name))
            bound[p] = defaults[p]
    return bound


def _simple_arg(e):
    if isinstance(e, (ast.Name, ast.Constant)):
        return True
    return isinstance(e, ast.Subscript) and is_pure(e, None)


def _fresh(base, taken):
    k = base
    while k in taken:
        k += "_"
    taken.add(k)
    return k


def _expand_stmt_call(fn, stmt, h, taken):
    """`t = _h(..)` -> list of statements (helper body with parameters bound, locals renamed on clash, `t = <ret>`)"""
    pre, ret = _helper_body(h)
    bound = _bind_args(h, stmt.value)
    hcnt = _binding_counts(h)
    hmut = _mutated(h)
    free_ok = set(_params(h)) | {n.id for s in pre for n in _names(s, ast.Store)}
    out, subst, rename = [], {}, {}
    # names of the caller that occur in argument expressions must not be captured by helper locals
    for p, v in bound.items():
        if hcnt.get(p, 0) == 1 and p not in hmut and _simple_arg(v):
            subst[p] = v
        else:
            new = _fresh("%s__%s" % (h.name.strip("_"), p), taken)
            rename[p] = new
            out.append(ast.Assign(targets=[ast.Name(id=new, ctx=ast.Store())], value=copy.deepcopy(v), lineno=stmt.lineno))
    arg_names = {n.id for v in bound.values() for n in _names(v)}
    for loc in sorted(free_ok - set(_params(h))):
        if loc in taken or loc in arg_names:
            rename[loc] = _fresh("%s__%s" % (h.name.strip("_"), loc), taken)
        else:
            taken.add(loc)
    body = [copy.deepcopy(s) for s in pre] + [ast.Assign(targets=copy.deepcopy(stmt.targets), value=copy.deepcopy(ret),
                                                         lineno=stmt.lineno)]
    res = []
    for i, s in enumerate(body):
        last = i == len(body) - 1
        if last:
            s.value = _Rename(rename).visit(s.value)
            s.value = _Subst(subst).visit(s.value)
        else:
            s = _Rename(rename).visit(s)
            s = _Subst(subst).visit(s)
        res.append(s)
    return [ast.fix_missing_locations(s) for s in out + res]


class _ExprInline(ast.NodeTransformer):
    """calls of single-`return` helpers inside expressions"""

    def __init__(self, helpers):
        self.helpers, self.changed = helpers, False

    def visit_Call(self, c):
        self.generic_visit(c)
        if isinstance(c.func, ast.Name) and c.func.id in self.helpers:
            h = self.helpers[c.func.id]
            pre, ret = _helper_body(h)
            if pre:
                return c    # statement-level form only; left for _expand_stmt_call (or unknown to the generator)
            bound = _bind_args(h, c)
            if not all(is_pure(v, None) for v in bound.values()):
                raise U("normalise: impure argument in expression-level call of %s" % h.name)
            if set(_names(ret, ast.Store)):
                raise U("normalise: helper %s stores in its return expression" % h.name)
            self.changed = True
            return _Subst(bound).visit(copy.deepcopy(ret))
        return c


def inline_helpers(fn, tree, exclude=()):
    helpers = _module_helpers(tree, set(exclude) | {fn.name})
    if not helpers:
        return
    for _ in range(MAX_INLINE_ROUNDS):
        changed = False
        taken = {n.id for n in _names(fn)} | set(_params(fn))

        def walk(block):
            nonlocal changed
            i = 0
            while i < len(block):
                s = block[i]
                if isinstance(s, ast.Assign) and isinstance(s.value, ast.Call) and isinstance(s.value.func, ast.Name) \
                        and s.value.func.id in helpers and _helper_body(helpers[s.value.func.id])[0]:
                    new = _expand_stmt_call(fn, s, helpers[s.value.func.id], taken)
                    block[i:i + 1] = new
                    i += len(new)
                    changed = True
                    continue
                for sub in _blocks(s):
                    walk(sub)
                i += 1
        walk(fn.body)
        tr = _ExprInline(helpers)
        tr.visit(fn)
        if not (changed or tr.changed):
            ast.fix_missing_locations(fn)
            return
    raise U("normalise: helper inlining did not reach a fixpoint (mutual recursion?)")


# ------------------------------------------------------------------------------------------------ N2 negated guards
class _SwapNot(ast.NodeTransformer):
    def visit_If(self, s):
        self.generic_visit(s)
        if isinstance(s.test, ast.UnaryOp) and isinstance(s.test.op, ast.Not) and s.orelse:
            s.test, s.body, s.orelse = s.test.operand, s.orelse, s.body
        return s

    def visit_IfExp(self, e):
        self.generic_visit(e)
        if isinstance(e.test, ast.UnaryOp) and isinstance(e.test.op, ast.Not):
            e.test, e.body, e.orelse = e.test.operand, e.orelse, e.body
        return e


def swap_negated_guards(fn):
    _SwapNot().visit(fn)


# ------------------------------------------------------------------------------------------------ N3 temporaries
def _find_def(fn, name):
    """(block, index, stmt, ancestors) of the unique `name = <expr>` statement, ancestors = enclosing blocks"""
    found = []

    def walk(block, anc):
        for i, s in enumerate(block):
            if isinstance(s, ast.Assign) and len(s.targets) == 1 and isinstance(s.targets[0], ast.Name) \
                    and s.targets[0].id == name:
                found.append((block, i, s, anc + [block]))
            for sub in _blocks(s):
                walk(sub, anc + [block])
    walk(fn.body, [])
    return found[0] if len(found) == 1 else None


def _binding_site(fn, name):
    """(enclosing blocks, statement) of the single statement binding `name`, or None (parameter / not found)"""
    res = []

    def walk(block, anc):
        for s in block:
            own = [n for n in _names_shallow(s) if n.id == name and isinstance(n.ctx, ast.Store)]
            if own:
                res.append((anc + [block], s))
            for sub in _blocks(s):
                walk(sub, anc + [block])
    walk(fn.body, [])
    return res[0] if len(res) == 1 else None


def _names_shallow(s):
    """Name nodes of a statement without descending into its nested statement blocks"""
    out = []
    for fld, val in ast.iter_fields(s):
        if fld in ("body", "orelse", "finalbody", "handlers") and isinstance(val, list) and val \
                and isinstance(val[0], (ast.stmt, ast.ExceptHandler)):
            continue
        vals = val if isinstance(val, list) else [val]
        for v in vals:
            if isinstance(v, ast.AST):
                out.extend(_names(v))
    return out


def _order(fn):
    """statement -> position in a pre-order walk (textual order)"""
    pos = {}

    def walk(block):
        for s in block:
            pos[id(s)] = len(pos)
            for sub in _blocks(s):
                walk(sub)
    walk(fn.body)
    return pos


def inline_temporaries(fn, keep):
    """substitute single-assignment pure temporaries that the translator has no name for"""
    if _scoping_hazard(fn):
        return
    for _ in range(32):
        cnt, mut, params = _binding_counts(fn), _mutated(fn), set(_params(fn))
        if any(cnt.get(f, 0) for f in PURE_CALLS):
            return   # a whitelisted builtin is shadowed locally: purity cannot be judged by name
        pos = _order(fn)
        done = False
        for name in sorted(k for k, v in cnt.items() if v == 1 and k not in keep and k not in params and k not in mut):
            d = _find_def(fn, name)
            if d is None:
                continue
            block, i, stmt, anc = d
            val = stmt.value
            stable = {k for k, v in cnt.items() if v == 1 and k not in mut}
            if not is_pure(val, stable):
                continue
            ok = True
            for n in _names(val):
                if n.id == name or cnt.get(n.id, 0) > 1 or n.id in mut:
                    ok = False
                    break
                if n.id in params or cnt.get(n.id, 0) == 0:
                    continue     # never rebound parameter / module-level or builtin name
                b = _binding_site(fn, n.id)
                if b is None:
                    ok = False
                    break
                b_anc, b_stmt = b
                # the free name is bound earlier, in a block that encloses the definition (so it dominates it and,
                # inside a loop, is re-established before the definition in every iteration)
                if not (pos[id(b_stmt)] < pos[id(stmt)] and any(b_anc[-1] is a for a in anc)):
                    ok = False
                    break
            if not ok:
                continue
            # every use lies after the definition, inside the definition's block
            uses_outside = False
            inside = set()

            def mark(bl):
                for s in bl:
                    inside.add(id(s))
                    for sub in _blocks(s):
                        mark(sub)
            mark(block[i + 1:])

            def scan(bl):
                nonlocal uses_outside
                for s in bl:
                    if s is stmt:
                        continue
                    if id(s) not in inside and any(n.id == name for n in _names_shallow(s)):
                        uses_outside = True
                    for sub in _blocks(s):
                        scan(sub)
            scan(fn.body)
            if uses_outside:
                continue
            sub = _Subst({name: val})
            for k in range(i + 1, len(block)):
                block[k] = sub.visit(block[k])
            del block[i]
            if not block:
                block.append(ast.Pass())
            ast.fix_missing_locations(fn)
            done = True
            break
        if not done:
            return
    raise U("normalise: temporary inlining did not reach a fixpoint")


def normalise_function(tree, name, keep, no_inline=()):
    """find module-level / nested function `name` in `tree` and return a normalised deep copy"""
    fn = copy.deepcopy(T.find_function(tree, name))
    inline_helpers(fn, tree, exclude=no_inline)
    swap_negated_guards(fn)
    inline_temporaries(fn, set(keep))
    return fn
