#!/venv/bin/python
"""Run every seeded change against its property's quick check and record exactly what caught it.

  harness/seeded_matrix.py [ids...] [--cross]     -> seeded/RESULTS.json, seeded/RESULTS.md

For each seeded/<id>/ (patch.diff, demo.py, meta.json): scratch worktree of /repo HEAD, demo on the clean
tree (must exit 0), apply patch, demo (must exit 1), run `./check <prop>` with SIGPY_REPO pointing at the
worktree and the evidence written to a scratch directory, parse that evidence: which obligations broke
(by kind), how many correspondence disagreements, which failure keys the search produced.
With --cross every other claimed check is run too (to see collateral alarms).
Never touches /repo's working tree; regenerates Gen/ for the clean tree at the end.
"""
import json
import os
import subprocess
import sys
import shutil

VERIF = os.path.dirname(os.path.dirname(os.path.abspath(__file__)))
SEEDED = os.path.join(VERIF, "seeded")
EV = "/tmp/mutrun/evidence_%d" % os.getpid()


def sh(cmd, **kw):
    return subprocess.run(cmd, stdout=subprocess.PIPE, stderr=subprocess.STDOUT, text=True, **kw)


def run_one(sid, cross, claimed):
    d = os.path.join(SEEDED, sid)
    meta = json.load(open(os.path.join(d, "meta.json")))
    prop = meta["property"]
    wt = "/tmp/mutrun/%s_%d" % (sid, os.getpid())
    os.makedirs("/tmp/mutrun", exist_ok=True)
    sh(["git", "-C", "/repo", "worktree", "add", "--detach", wt, "HEAD"])
    res = dict(id=sid, property=prop, breaks=meta.get("breaks", ""), needs=meta.get("needs", ""))
    try:
        env = dict(os.environ, PYTHONPATH=wt, OMP_NUM_THREADS="2", NUMBA_NUM_THREADS="2")
        r0 = sh(["/venv/bin/python", os.path.join(d, "demo.py")], env=env, cwd=wt)
        ap = sh(["git", "-C", wt, "apply", os.path.join(d, "patch.diff")])
        if ap.returncode != 0:
            res["error"] = "patch does not apply to /repo HEAD: " + ap.stdout[-300:]
            return res
        r1 = sh(["/venv/bin/python", os.path.join(d, "demo.py")], env=env, cwd=wt)
        res["demo_clean_exit"], res["demo_patched_exit"] = r0.returncode, r1.returncode
        props = [prop] + ([p for p in claimed if p != prop] if cross else [])
        res["checks"] = {}
        for p in props:
            shutil.rmtree(EV, ignore_errors=True)
            env2 = dict(os.environ, SIGPY_REPO=wt, VERIF_EVIDENCE_DIR=EV)
            r = sh([os.path.join(VERIF, "check"), p, "--tier", "quick"], env=env2, cwd=VERIF)
            out = dict(exit=r.returncode,
                       violation_lines=[l for l in r.stdout.split("\n") if l.startswith("VIOLATION")][:3])
            try:
                ev = json.load(open(os.path.join(EV, p + ".json")))
                cov = ev["coverage"]
                broken = [o for o in cov["obligation_list"] if not o["ok"]]
                out.update(obligations=cov["obligations"], discharged=cov["discharged"],
                           broken_by_kind={k: [o["name"] for o in broken if o["kind"] == k][:8]
                                           for k in sorted({o["kind"] for o in broken})},
                           disagreements=cov["disagreements"], violations=ev.get("violations"))
            except Exception as e:  # noqa
                out["evidence_error"] = repr(e)
            keys = []
            for l in out["violation_lines"]:
                path = l.split("replay=")[1].split()[0]
                try:
                    rp = json.load(open(path))
                    keys.append(rp.get("finding_key") or rp.get("kind"))
                except Exception:  # noqa
                    pass
            out["failure_keys"] = keys
            out["no_failing_input"] = any("no-failing-input-found" in l for l in out["violation_lines"])
            res["checks"][p] = out
        return res
    finally:
        sh(["git", "-C", "/repo", "worktree", "remove", "--force", wt])


def main():
    args = [a for a in sys.argv[1:] if not a.startswith("--")]
    cross = "--cross" in sys.argv
    claimed = [c["property_id"] for c in json.load(open(os.path.join(VERIF, "MANIFEST.json")))["checks"]]
    ids = args or sorted(x for x in os.listdir(SEEDED) if os.path.isdir(os.path.join(SEEDED, x)))
    path = os.path.join(SEEDED, "RESULTS.json")
    try:
        results = {r["id"]: r for r in json.load(open(path))}
    except Exception:  # noqa
        results = {}
    for sid in ids:
        print("==", sid, flush=True)
        r = run_one(sid, cross, claimed)
        results[sid] = r
        c = r.get("checks", {}).get(r["property"], {})
        print("   exit=%s broken=%s disagreements=%s keys=%s" % (c.get("exit"), c.get("broken_by_kind"), c.get("disagreements"), c.get("failure_keys")), flush=True)
        json.dump([results[k] for k in sorted(results)], open(path, "w"), indent=1)
    sh([os.path.join(VERIF, "check"), "setup"], cwd=VERIF)
    # markdown
    lines = ["| seeded | property | what it breaks | needs | proof / translate obligations broken | correspondence disagreements | search: failing input | result |",
             "|---|---|---|---|---|---|---|---|"]
    for k in sorted(results):
        r = results[k]
        c = r.get("checks", {}).get(r["property"], {})
        bk = c.get("broken_by_kind", {})
        pr = "; ".join("%s: %s" % (kk, ", ".join(n.split(":")[-1].split(".")[-1] for n in v[:4]) + ("…" if len(v) > 4 else ""))
                       for kk, v in bk.items() if kk in ("theorem", "translate", "build")) or "—"
        res = "VIOLATION" if c.get("exit") == 1 else "MISSED (exit %s)" % c.get("exit")
        if c.get("no_failing_input"):
            res += " (no-failing-input-found)"
        lines.append("| %s | %s | %s | %s | %s | %s | %s | %s |" % (
            k, r["property"], r["breaks"][:140].replace("|", "/"), r["needs"][:120].replace("|", "/"), pr,
            c.get("disagreements", "?"), ", ".join(sorted(set(str(x) for x in c.get("failure_keys", []))))[:120] or "—", res))
    open(os.path.join(SEEDED, "RESULTS.md"), "w").write("\n".join(lines) + "\n")
    print("wrote", path)


if __name__ == "__main__":
    sys.exit(main())
