"""print the mutant-agent prompt for a property:  mkmut.py C09 /tmp/mut/c09 3 'test_util.py tests/test_block.py'"""
import json, sys
pid, wt, n, tests = sys.argv[1:5]
round2 = len(sys.argv) > 5
p = [json.loads(l) for l in open('/verif/properties.jsonl') if json.loads(l)['id'] == pid][0]
t = open('/verif/harness/MUTANT_PROMPT.txt').read()
print(t.replace('{WT}', wt).replace('{TITLE}', p['title']).replace('{STATEMENT}', p['statement'])
       .replace('{QUANT}', p['quantifier']['text']).replace('{ROUND2}', ('This is a SECOND round: earlier changes of the obvious kinds (wrong index/width on one axis, dropped conjugate, off-by-one length, dropped copy, wrong dtype buffer) have already been tried. Prefer changes of these kinds: two cooperating sites that each look fine alone; a history- or order-dependent effect (caching, state carried between calls, in-place reuse); a refactoring into a shared helper that is subtly wrong for one caller; an optimisation with a fast path whose guard is slightly too wide; a change in a helper module (util, backend, config) that only matters for this property; numerical-edge behaviour (ties, exact zeros, size-1 or length-0 axes, negative strides/axes, very small or very large parameters).\n\n' if round2 else '')).replace('{N}', n).replace('{TESTS}', tests))
