import sys, json
T = open('/verif/harness/AGENT_PROMPT.txt').read()
def mk(props, work, first, hours, defects, extra):
    return (T.replace('{PROPS}', props).replace('{WORK}', work).replace('{FIRST}', first)
             .replace('{HOURS}', str(hours)).replace('{DEFECTS}', defects).replace('{EXTRA}', extra))
if __name__ == '__main__':
    a = json.load(sys.stdin)
    print(mk(**a))
