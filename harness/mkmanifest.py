"""Writes MANIFEST.json from the table below (run by hand when a property is added)."""
import json
import os

HERE = os.path.dirname(os.path.dirname(os.path.abspath(__file__)))
BASELINE = "cd /repo && /venv/bin/python -m pytest -ra -q -p no:cacheprovider --timeout=900 --continue-on-collection-errors"

CLAIMED = {
    "C09": dict(
        text="Lean 4 theorems about the translator-generated block loop nests (gather/scatter membership in 1-3 D, scatter = transpose "
             "of gather, every gather destination written at most once so '=' and '+=' coincide, the number of '+=' updates landing "
             "on an array element = product over axes of the (block, offset) counts, uncovered indices receive none, num_blks "
             "maximality) and the generated shape/shift formulas of util.resize and Down/Upsample, plus array-level specifications "
             "of the model functions the driver runs, in N dimensions: resize_array_spec (input element j lands at output position k "
             "exactly when j_d - i_d//2 = k_d - o_d//2 on every axis with default shifts - every pad/crop mix - zero elsewhere; "
             "explicit shifts; transposition), flip (involution), circshift (sequential rolls = per-axis roll by the summed shift: "
             "repeated axes add, order irrelevant, inverse by negated shifts), downsample / upsample (slice s::f; "
             "downsample*upsample = id, upsample*downsample = mask). Tie: Gen/*.lean regenerated from sigpy/block.py, util.py, "
             "linop.py on every run + exact integer correspondence of the executable model with the real functions and Linops "
             "(incl. a stream of multi-axis circshifts with unsorted / negative / repeated axes).",
        note="Trusted: Lean kernel; translator harness/translate (Python ast subset -> Lean); that the model's numpy slicing / roll / "
             "reshape / _expand_shapes semantics is numpy's is validated by the exact correspondence streams, not proved; numba "
             "compiles the kernels as Python would run them; IEEE plays no role (integer data).",
        technique="Lean 4 proof over translator-generated model + exact differential correspondence",
        design="DESIGN.md §3 C09, §9"),
    "C05": dict(
        text="Lean 4 theorems: the fft/ifft pipelines extracted from sigpy/fourier.py by the translator (resize -> ifftshift -> "
             "(i)fftn(norm) -> fftshift; uncentred = bare transform; axis normalisation a % ndim; dtype rule) have DFT exponent "
             "(k-n/2)(j-n/2) mod n for every n (odd/even), k*j uncentred; with a primitive n-th root of unity the scaled matrices "
             "satisfy F^H F = I, IFFT = FFT^H, ifft(fft x) = x, norm preservation, 1/n backward scaling, Kronecker structure over "
             "axes; centred oshape = transform of the centre-padded/cropped input (reusing C09 resize theorems). Tie: Gen/Fourier.lean "
             "regenerated every run + exact comparison of quantised (phase, squared magnitude) matrix columns of the real "
             "fft/ifft/FFT/IFFT with the model's table."
             " Deepened: the n-fold Kronecker structure is proved for every rank, shape and axes subset (fftn_matrix_entry, fftn_unitary, fftn_unitary_flat, ifftn_eq_conjTranspose, ifftn_fftn_id, fftn_norm_preserved), negative spellings / orderings of the same axis set give the same matrix (axes_normalised_distinct, spellings_same_matrix), the executable table the driver compares with sigpy denotes that matrix (entry_denote, table_eq, sigpy_fft_unitary), and centred oshape = F_Nd(resize(x)) in N dimensions (fft_oshape_eq_fftn_resize, via C09's N-d resize specification); the streams feed C / Fortran / strided / negative-stride layouts, all input dtypes, and same-shape call sequences with different (axes, centre, norm) settings.",
        note="Trusted: Lean kernel; translator gen_c05; numpy fftn/ifftn/roll contract written by hand in Model/C05.lean and "
             "validated by the quantised correspondence; IEEE rounding not modelled (1e-5 / 1e-10 tolerances when quantising); "
             "numpy's 1-D fftn/ifftn/roll contract stays validated by correspondence.",
        technique="Lean 4 proof over translator-generated pipeline + exact quantised differential correspondence",
        design="DESIGN.md §3 C05, §9"),
    "C03": dict(
        text="Lean 4 theorems about an operator-algebra model (Op = oshape, ishape, app; leaves are dense matrices): A*B applies B "
             "then A and is accepted iff A.ishape = B.oshape; A+B/A-B/-A/a*A/A*a laws; Linop.apply with the EXACT shape guards "
             "(call_iff; zip stops at the shorter shape, -1 is a wildcard: zipGuard_iff; equality for equal ranks without -1: "
             "zipGuard_eq_iff / natGuard_eq_iff); _hstack_params/_vstack_params: accepted iff axis in [-ndim, ndim) and shapes agree "
             "off the normalised axis, returned indices are the prefix sums of the operand sizes for every list of shapes, axis=None "
             "accepts everything; N-d slab geometry via the outer x axis x inner decomposition of the row-major layout, READ side "
             "(sliceAx_concat, slabs_concat: slicing a concatenation at the slab bounds returns the parts) and WRITE side "
             "(assembleAx_concat, assemble_concat: nothing unwritten or overwritten); operator level, for every operand list that "
             "passes build: vstack_block_col (Vstack(ops)(x) = concatenation of ops_k(x) along the normalised axis / of the "
             "flattened outputs for None), hstack_block_row (Hstack(ops)(x_1 || ... || x_n) = sum_k ops_k(x_k)), diag_block_diag (all "
             "four oaxis/iaxis combinations incl. the mixed None/axis cases); misfits rejected. Tie: _hstack_params/_vstack_params "
             "are translated statement by statement (fold over shapes[1:], len(shape) != ndim test, fold over i in range(ndim) with "
             "the source's if/elif, shapes[0][axis] IndexError before axis % ndim) into Gen/StackParams.lean each run and proved equal "
             "to the model's combined test for every input (gen_loop_eq_combined, so stack_build_iff / stack_indices_prefix_sums are "
             "statements about the translation: gen_stack_build_iff, gen_stack_indices_prefix_sums); _check_ishape/_check_oshape "
             "translated and proved equal to zipGuard (gen_guard_agree); _apply axis normalisation (gen_apply_axis_agree) + exact "
             "Gaussian-rational correspondence of random expression trees (incl. malformed ones, wrong-shaped inputs and inputs of "
             "a different rank) built both in sigpy and in the Lean driver.",
        note="Trusted: Lean kernel; translator gen_c03 (sequential statement translator _Seq); numpy slicing / slice assignment "
             "semantics (sliceAx/rowWrite) and the bodies of Hstack/Vstack/Diag._apply (start/end selection, slice tuple, sum / "
             "assignment) are a hand transcription tied by correspondence and the oracle, not by the translator; the block theorems "
             "assume operand outputs of the advertised shapes with prod(shape) entries (automatic for inputs of the advertised "
             "rank); numpy broadcasting of off-rank operands and 0-d arrays are not modelled (off-rank inputs are sent through "
             "Identity/Reshape/scalar chains only). Observation (outside the property's domain, not flagged): the zip guard accepts "
             "inputs whose shape is a proper prefix or an extension of ishape, e.g. Identity([2,3])(zeros(2)) returns shape (2,).",
        technique="Lean 4 proof over operator-algebra model + translator-generated loops/guards proved equal to it + exact differential correspondence of expression trees",
        design="DESIGN.md §3 C03, §9"),
    "C11": dict(
        text="Lean 4 theorems (Mathlib, real inner-product spaces / R, C): each prox formula the translator extracts from prox.py / thresh.py (Gen/Prox.lean: soft threshold kernel, L1Reg threshold lamda*alpha, clip, l2 mask formula, linf = y - soft, L2Reg closed form with bias and inner prox, Conj's Moreau formula, UnitaryTransform, Stack) is the unique minimiser of 1/2||x-y||^2 + alpha g(x) in the strong form F p + 1/2||p-y||^2 + 1/2||x-p||^2 <= F x + 1/2||x-y||^2 (so minimal and unique), for real and complex data, incl. ball boundaries and bias; projections fix feasible points and are idempotent; l1-ball projection under the KKT certificate (theta >= 0, sum(|y_i|-theta)_+ = eps), which the correspondence verifies exactly for every case of Duchi's search; every nesting returns the input's shape. Tie: Gen/Prox.lean regenerated each run + correspondence of the real Prox classes/thresh functions with the exact Gaussian-rational model (exactly representable inputs, 1e-12; Fraction object arrays by equality). thresh.psd_proj: its body is translator-generated (Gen/Prox.lean psdProjWith over the PsdOps record: Hermitian part, eigh as a parameter, eigenvalue clamp, V diag(w) V^H) and proved (psd_proj_prox, any RCLike field) to be the Frobenius projection onto the PSD cone of an arbitrary square input under the spectral contract of eigh (V^H V = I, V diag(w) V^H = A, w real), via psd_proj_spectral (P PSD, H-P NSD, (H-P)P = 0, Re<H-P,Q-P> <= 0) and psd_proj_skew; Duchi's sort/cumsum index search is proved to return a KKT threshold (duchi_theta over the generated l1projSt/l1projCond; l1_proj_duchi_real/complex: soft_thresh(st[idx], y) is the l1-ball projection; duchiTheta_kkt for the executable model).",
        note="Trusted: Lean kernel; translator gen_c11 (symbolic execution of straight-line _prox bodies and numba kernels; array-level extraction of psd_proj over PsdOps); numpy elementwise evaluation / sort / cumsum / flatnonzero.max / norm / split-vec plumbing tied by correspondence (hypotheses of l1_proj_duchi_*: sort(..)[::-1] is a non-increasing arrangement, cumsum the partial sums); numpy.linalg.eigh's spectral contract (hypothesis of psd_proj_prox; checked numerically on every run incl. repeated eigenvalues) and the meaning of +, conj, .T, /k, @, broadcasting *, masked assignment fixed by the PsdOps instances (Mathlib matrices vs exact arrays, compared with the real code on exact spectral data); IEEE rounding not modelled.",
        technique="Lean 4 proof over translator-generated prox formulas + exact-rational differential correspondence",
        design="DESIGN.md §3 C11, §9"),
    "C01": dict(
        text="Lean 4 theorems: coo_adjoint (for ANY entry list over a commutative star-ring, <E x, y> = <x, adjE E y>: removes the "
             "quantifier over x, y); applyF_append/compE/conjE; adj_denote by structural induction over the Expr type mirroring "
             "Compose/Add/Conj/Hstack/Vstack/Diag and every _adjoint_linop; and the leaf pairs discharged IN LEAN for all valid "
             "(symbolic) parameters of Identity, Reshape, Slice, Embed, Flip, Circshift (any shifts/axes incl. repeated, negative, "
             "None), Downsample/Upsample, Resize (N-d, differing ranks, default or explicit shifts, equal-shape early return), "
             "Sum/Tile, Transpose (None or any permutation incl. negative entries, argsort inverse), Multiply (scalar or broadcast "
             "array, conj flag, the Reshape*Sum*Multiply(conj) plumbing with _get_multiply_adjoint_sum_axes), "
             "ArrayToBlocks/BlocksToArray (1-3 D, any batch, overlap/gap/tiling) and Interpolate/Gridding with spline kernels "
             "(1-3 D) - the last two about the translator-generated loop nests (scatter list = permutation of the swapped gather "
             "list; gridding = literally the index-swapped interpolate list); hence adj_denote_leaves: for every tree over those 17 "
             "leaf classes <A x, y> = <x, A.H y> and swapped shapes hold with NO hypothesis, and normal_gram_leaves "
             "(<A.N x, z> = <A x, A z>). Tie: translator (Gen.Block, Gen.Interp, formulas) + exact comparison of the implementation's "
             "matrices of A and A.H (basis vectors + Gaussian-integer vector) with the model's entries for 19 leaf classes and "
             "random trees.",
        note="Trusted: Lean kernel; translator; hand-transcribed leaf models (Transpose, Sum/Tile, Slice/Embed, Multiply/MatMul "
             "plumbing) tied by the exact correspondence; MatMul/RightMatMul leaf pairs are validated by the exact matrix "
             "correspondence only (no Lean proof); FFT, NUFFT, convolution, wavelet, Kaiser-Bessel leaves and the MRI factories "
             "(Sense, ConvSense, ConvImage, PtxSpatialExplicit) are decided by the dot-test search oracle here (their own properties "
             "C05/C06/C08/C10/C16 carry theorems); IEEE rounding not modelled.",
        technique="Lean 4 proof (entry-list adjoint, leaf pairs, structural induction over operator trees) + exact differential correspondence",
        design="DESIGN.md §3 C01, §9"),
    "C04": dict(
        text="Lean 4 theorems: normal_eq_default/normal_default (operators without an override get A.N = A.H*A acting as x -> "
             "A.H(A x)), normal_gram (<A.N x, z> = <A x, A z>); shortcut_normal_is_identity_{identity,reshape,transpose,circshift} "
             "(entry level of the model: denote(adj e) composed with denote e returns x on the whole index range, for every axes "
             "permutation incl. negative axes / axes=None and every shift / axes list - the gather is a bijection of the index set, "
             "P^H P = I - so the Identity(ishape) override agrees with A^H A); normal_denote_leaves (for every Compose / Add / Conj / "
             "Hstack / Vstack / Diag tree over the C01.LeafProved classes, A.N - override at the top node or default rule - acts as "
             "x -> A^H(A x) with A^H the true adjoint: (A.N x)[j] = <A e_j, A x>); blocks, about the regenerated loop nests "
             "Gen.a2b{1,2,3} / Gen.b2a{1,2,3}: b2a1_a2b1_cover, b2a2_a2b2_cover, b2a3_a2b3_cover ((A^H A x)[b,i] = prod_axes cover(i_axis) "
             "x[b,i]), cover_tiling / cover_overlap / cover_gap, cover_one_iff_tiling (with num_blks from ArrayToBlocks.__init__: cover = 1 "
             "on all of 0..L-1 iff (S = B and B | L) or B = L), cover_le_one_iff and b2a_normal_identity_iff (BlocksToArray.N = A A^H "
             "is the identity on block arrays iff B <= S or a single block), witnesses blocks_identity_wrong_witness (L=5,B=2,S=1), "
             "blocks2_identity_wrong_witness, cover_nondividing_witness (L=5,B=S=2: stride == block is not enough). "
             "Tie: exact comparison of the implementation's A.N matrix with the model's normal e for all leaf classes and random "
             "trees; real A.H(A(1)) and A.N(1) of ArrayToBlocks in 1-3 D vs the per-axis cover counts printed by the Lean driver "
             "(C04.coverAxis); FFT/IFFT shortcut is C05's dftMatrix_unitary.",
        note="Trusted: as C01 (MatMul / RightMatMul leaf pairing validated only, so trees containing them are outside "
             "normal_denote_leaves). Side conditions of the shortcut theorems: non-negative extents. b2a_normal_identity_iff is proved "
             "for the 1-D loop nests (2-D / 3-D: cover level per axis + search oracle). Toeplitz NUFFT normal is "
             "decided by the search oracle only (relative l2 error <= 6% at defaults, 0.6% at oversamp 2 = twice the C06 bound).",
        technique="Lean 4 proof (normal = adjoint composed with operator; block cover counts) + exact differential correspondence",
        design="DESIGN.md §3 C04, §9"),
    "C19": dict(
        text="Lean 4 theorems over C about definitions the translator regenerates on every run from mri/rf/sim.py, optcont.py and "
             "slr.py (Gen/Sim.lean: per-simulator step maps, parameter formulas av/bv/alpha/beta with cos/sin of ONE half angle as "
             "atoms, final rephasing, abrm's balanced block, abrm_ptx's output map, the whole-simulation folds, the exponents of the "
             "gradient phases, ab2rf's sj / peel / slices): su2_step_norm; ck/nd/hp/bs/ptxParams_valid (the source's formulas satisfy "
             "|av|^2+|bv|^2 = 1 under the atom constraints); gen_unitary_{abrm,abrm_nd,abrm_hp,blochsim,abrm_ptx} (|alpha|^2+|beta|^2 "
             "= 1 for EVERY waveform length), gen_zero_rf_* (beta stays 0, |alpha| = 1), gen_compose_* and "
             "gen_compose_abrm_hp_code / gen_compose_blochsim_code (simulating w1 ++ w2 is the SU(2) product, with the code's own "
             "final rephasing: hp/bs_frame_exponents, zf^2 prod z = 1 proved from the source's exponents), abrm_balanced_norm; "
             "ab2rf_inverts_forward and ab2rf_inverts_forward_code (for every pulse length, peeling the polynomial pair built by the "
             "forward SLR recursion returns the pulses exactly, with the code's own c_j formula). Tie: translator (fail-closed) + real "
             "simulators vs the exact Gaussian-rational run of the generated simulation on per-sample atoms (1e-12), ab2rf vs exact "
             "(c_j, s_j) on Pythagorean pairs.",
        note="Trusted: Lean kernel; translator gen_c19; the atom-defining statements (om, phi, n, normfact) are only checked not to "
             "read the state - their content and the unit-axis hypothesis nx^2+ny^2+nz^2 = 1 are tied by the correspondence (the "
             "code's +eps makes it inexact anyway); NOT proved: that the forward recursion is the polynomial hard-pulse simulation "
             "evaluates on the unit circle (round-trip oracle), b2a / mag2mp / dzrf (numerical: round-trip oracle only, 1e-6 on exact "
             "pairs, 1e-3 through b2a), blochsim's n-D x @ g read as 1-D; float rounding not modelled.",
        technique="Lean 4 proof (SU(2) norm identity, induction over waveform, inverse-SLR peeling) over translator-generated simulators",
        design="DESIGN.md §3 C19, §9"),
    "C20": dict(
        text="Lean 4 theorems over R about the formulas the translator extracts from trap_grad / min_trap_grad (Gen/TrapGrad.lean: "
             "ramp lengths, triangle/trapezoid test, flat length, rescale factor, flat count with its max(.,1) guard, gmax cap; every "
             "ceiling / comparison is a numbered site): for all positive area, gmax, dgdt, dt the waveform starts and ends at 0, "
             "sum(trap)*dt = area exactly, |g| <= gmax and |dg|/dt <= dgdt in both regimes incl. joints (trap_meets_limits, "
             "min_trap_meets_limits with flat-top area = area), ramppts >= 1, min_trap_defined (the error branch is exactly 2*area < "
             "dgdt*dt^2). Bridge proved (Props/C20Rat): rat_real_agree / trapGrad_cast / minTrapGrad_cast - casting the rational "
             "inputs to R commutes with every generated formula (Rat.ceil = Int.ceil, Nat.ceil = toNat of it, ordered-field "
             "embedding, checked sqrt hints = the real ceil/floor of the root), so trap_meets_limits_rat / min_trap_meets_limits_rat "
             "/ trap_area_rat hold for the exact rational waveform the driver computes and the correspondence compares with the real "
             "code. spokes_grad: the assembly (per-spoke loop, sign alternation, zero padding, blip placement by slicing, rewinder, "
             "k-space differences / 4257) is translator-generated (Gen/Spokes.lean) with abstract designers; spokes_closed_form, "
             "spokes_limits (all three axes zero-ended within the limits, under the explicit domain condition that every blip fits "
             "into one slice-select lobe), spokes_kspace (4257*sum(g)*dt over a spoke's segment = k[i+1]-k[i], k[n]=0), "
             "spokes_limits_designers (no hypothesis on the designers left). ceil_perturb_iff / ceil_stable: float ceil differs from "
             "exact ceil iff an integer separates the rounded double from the exact argument. Tie: Gen/TrapGrad.lean, Gen/Spokes.lean "
             "regenerated each run + real functions vs the exact rational model, following the float code through the doubles it "
             "rounded at each site (ties compared exactly, none skipped); real spokes_grad with table designers vs the generated "
             "assembly, inside and outside the domain condition.",
        note="Trusted: Lean kernel; translator gen_c20 (fail-closed statement-level translator for the spokes assembly); numpy "
             "linspace/concatenate/ones/sum/vstack and list slicing. Not proved: IEEE rounding itself (where a rounding crosses an "
             "integer the float path differs from the exact path the _rat theorems are about; such cases occur only within ~1e-16 of "
             "a tie, are counted on every run, compared exactly via the recorded double, and absorbed by the property's 1e-9 slack). "
             "Outside the domain condition of spokes_limits (a blip longer than one slice-select lobe) the real code raises at "
             "np.vstack or silently overwrites the previous spoke's tail - recorded as an observation, reproduced by the generated "
             "model, not a violation.",
        technique="Lean 4 proof over translator-generated design formulas and assembly + exact-rational differential correspondence",
        design="DESIGN.md §3 C20, §9"),
    "C07": dict(
        text="Lean 4 theorems about the six numba loop nests regenerated from sigpy/interp.py (Gen/Interp.lean) and the generated "
             "spline kernel (Gen/InterpKernels.lean): window_iff_abs (the integers ceil(c-W/2)..floor(c+W/2) are exactly those with "
             "|i-c| <= W/2, ties included), interp{1,2,3}_mem (the update list is exactly the documented sum: periodic % n wrap, "
             "separable product weight, coord[...,-d] paired with width[-d], param[-d] and grid axis -d), grid{1,2,3} = literally the "
             "interpolate list with destination and source swapped (same weights, same order), kernels_accumulate (all six use +=) "
             "and runUpd_acc_eq_sum (so coincident / wrapped contributions add), transpose_pairing, shift-by-period invariance, "
             "spline_kernel_doc / spline2_breakpoint (orders 0,1,2 equal the documented piecewise polynomials, zero outside [-1,1]). "
             "Tie: Gen files regenerated every run + exact correspondence on dyadic coordinates / widths (basis matrices, bitwise "
             "gridding = interpolate^T), Python wrappers by correspondence."
             ' Deepened: the Python wrappers interpolate / gridding are translator-generated statement by statement (Gen/InterpWrappers.lean: ndim, batch/points shapes, every reshape target, scalar-vs-sequence width/param broadcasting, dispatch index and kernel tables, output reshape) with interpolateW_spec / griddingW_spec / wrapper_spec; the executable array semantics is linked to the function-level one (applyUpd_eq_runUpd, applyUpd_eq_sum), so interpolate_value_spec / gridding_value_spec hold for what the driver runs.',
        note="Trusted: Lean kernel; translator; the Python list/slice/reshape semantics the generated wrappers are interpreted with (Model/C07Py.lean) and the domain guard 1 <= ndim <= 3 are hand-written and tied by correspondence; the cupy branch is not modelled; the Kaiser-Bessel kernel has no rational model: its update structure is compared exactly (driver emits kernel arguments, harness multiplies sigpy's own kernel values) and its values are checked against scipy.special.i0 at 2.5e-7 by the oracle only; float rounding not modelled.",
        technique="Lean 4 proof over translator-generated loop nests + exact differential correspondence",
        design="DESIGN.md §3 C07, §9"),
    "C06": dict(
        text="PARTIAL by nature: the 3% / 0.3% accuracy bound of Kaiser-Bessel gridding is analytic and is NOT proved - it is "
             "measured by the search oracle (per-coordinate row error of the implementation matrix vs the exact NUDFT: worst found "
             "2.2% / 0.24%). Lean 4 theorems carry the structure: os_sites_agree / oversampLen_ge (the three oversampled-length "
             "sites agree; padding never crops), scaleCoord_period and nufft_periodic{1,2,3} (shifting coordinates by whole image "
             "periods leaves the interpolation update list literally unchanged), nudft_periodic, grid_centre_consistency / "
             "crop_centre_consistency / dc_lands_on_centre (zero-pad, crop, _scale_coord shift and _apodize centre use the same "
             "centre; reuses C09), scale_consistency / pipeline_adjoint / nufft_adjoint_is_adjoint (abstract: stagewise adjointness "
             "with the code's scalings given the stage facts) and nufft_adjoint_is_adjoint_1d / _1d_code / _2d: the CONCRETE "
             "pipelines on C^N -> C^L -> C^M (one and two transform axes) built from a real diagonal apodisation, C09's zero-pad / crop "
             "model (resizeMat / resizeMatNd; adjoint pair by C09.resize_transpose / resize_transpose_nd), C05's centred DFT matrices "
             "(L * uIFFT = uFFT^H by idftMatrix_eq_conjTranspose; 2-D: Kronecker product) and C07's generated update lists Gen.interp1/2, "
             "Gen.grid1/2 run with C07's runUpd with real weights (grid = interp^T, transpose_pairing, in-bounds) satisfy "
             "<nufft x, y> = <x, nufft_adjoint y> with NO stage hypothesis left - only: apodisation weights real, kernel real-valued. "
             "Toeplitz normal operator: the translator extracts toeplitz_psf (embedding factor fed through the generated oversampLen / "
             "scaleCoord, unit-sample index, final factor, call arguments resolved against the signatures) and checks "
             "NUFFT._normal_linop (toeplitz_psf(self.coord, self.ishape, self.oversamp, self.width); T = R.H F.H P F R; FFT orthonormal); "
             "toep_embed_len (= 2N), toep_coord_doubled (2c + one period), toep_delta_on_centre, toep_final_mul (2^ndim compensates the two "
             "normalisations), toep_psf_is_kernel, nudft_gram_toeplitz (A^H A of the exact NUDFT is Toeplitz with kernel "
             "|c|^2 sum_j exp(2 pi i k_j d / N)), circulant_diagonalised and toeplitz_embedding_exact / toeplitz_structure: with sigpy's "
             "CENTRED conventions (C09 pad/crop N <-> 2N, C05 centred orthonormal DFT of length 2N, p = centred unnormalised DFT of "
             "psf[m] = t(m - N)), R^H F^H diag(p) F R equals the Toeplitz matrix t(n - n') entry by entry (1-D). "
             "Tie: Gen/NufftFormulas.lean regenerated every run (formulas, stage order, beta, arguments handed to "
             "interpolate/gridding, toeplitz_psf, _normal_linop) + recorded real nufft/nufft_adjoint runs (os_shape, scaled coordinates, "
             "scalings at 1e-12).",
        note="Trusted: Lean kernel; translator gen_c07; float ceiling ties handled by evaluating the model at the effective rational "
             "oversamp fl(os*N)/N; accuracy bound, Kaiser-Bessel values and rounding are oracle-only; periodicity at 1e-6 is "
             "skipped at window-edge ties (exact arithmetic equality is the theorem). The concrete adjoint theorems assume real "
             "apodisation weights (checked numerically) and a real-valued kernel; 3-D and batch axes are not written out (oracle). "
             "The Toeplitz theorems are about the exact kernel: the accuracy of the psf COMPUTED by toeplitz_psf (approximate nufft of "
             "a unit sample, complex64) is oracle-only (A.N(x) vs A.H(A(x)) at oversamp=2, width 7/8 within 3e-4; clean maximum 2.6e-5); "
             "N-d Toeplitz embedding (per-axis composition) not written out.",
        technique="Lean 4 proof of pipeline structure over translator-generated formulas + correspondence; accuracy measured by oracle",
        design="DESIGN.md §3 C06, §9"),
    "C10": dict(
        text="PARTIAL by nature (the transform is PyWavelets' C code). Lean 4 theorems: glue extracted by the translator "
             "(Gen/C10Formulas.lean) - zshape_spec (padded length even, >= i, adds i % 2), shape_consistent (get_wavelet_shape and "
             "fwt use the same padding and the same wavedecn/coeffs_to_array calls), inverse_mirrors_forward, pad_extra_zero_in_front, "
             "crop_is_pad_adjoint, pad_crop; filter-bank mathematics over any commutative ring in PyWavelets' indexing - "
             "synthesis_is_adjoint (any filters), qmf_perfect_reconstruction and qmf_isometry_1level (under support + completeness, "
             "any signal length incl. odd and shorter than the filter; complete_window: the coefficients pywt keeps lose nothing), "
             "Haar instance (haar_supported/complete/orthonormal/real), isometry_comp / adjoint_comp / rows / cols (levels, axes), "
             "dwt1_isometry / wavedec_isometry / wavedec_packed_isometry for the executed list model at every level count; "
             "multi-level 1-D list model incl. pywt.waverec's trimming rule: waverec_wavedec / wavedec_perfect_reconstruction (every "
             "level count, every length, odd intermediate lengths), wavedec_adjoint (arbitrary coefficient lists, any filters); the full "
             "1-D sigpy pipeline (pad to even with the zero in front, wavedec, pack | unpack, waverec, centre crop): fwt1_iwt1_id, "
             "iwt1_is_adjoint, fwt1_isometry, fwt1_length; separable N-d at level 1 over an arbitrary list of axes: "
             "fwtn_level1_isometry/_adjoint/_pr (applyAxes_*; tied to the executed model by fwt1_level1_eq); complete_of_qmf_pair: "
             "Complete follows from the orthonormality of dec_lo alone when dec_hi is its alternating flip (fwt1_iwt1_id_qmf, "
             "fwt1_isometry_qmf). Tie: translator + every run checks that all 75 orthogonal pywt wavelets satisfy the "
             "orthonormality/completeness sums (1e-10), that dec_hi is the alternating flip of dec_lo (exact), and that pywt.dwt/idwt/"
             "wavedec/waverec, sp.fwt/iwt, Wavelet(.H) equal the exact rational Lean model (1e-10), shapes, packing round trip, "
             "N-d level 1 = per-axis composition of the model, recorded pywt call arguments.",
        note="Trusted: Lean kernel; translator gen_c10; pywt's filter taps and C implementation are a CONTRACT validated every run, "
             "not proved; the general Orthonormal -> Complete (g not assumed to be the flip of h) is not proved; multi-level N-d "
             "(wavedecn recurses on the approximation block; coeffs_to_array block layout) is validated by correspondence and the "
             "oracle (1-D all levels and N-d level 1 proved).",
        technique="Lean 4 proof (glue + filter-bank theorems) + contract validation of PyWavelets by exact-rational correspondence",
        design="DESIGN.md §3 C10, §9"),
    "C14": dict(
        text="Lean 4 theorems about definitions REGENERATED from sigpy/app.py on every run: the decision function of _get_alg "
             "(Gen/C14Select.lean: select_default, select_named, rejects_iff, select_total) and the four set-ups "
             "_get_ConjugateGradient / _get_GradientMethod / _get_PrimalDualHybridGradient / _get_ADMM (Gen/C14Setup.lean: cgArgs, "
             "gmArgs, pdhgArgsNoG/G, admmArgsNoG/G = the arguments handed to the solver classes — system operator and right-hand "
             "side, the closures gradf / minL_x / minL_v as functions of the captured state, the operator given to MaxEig, the "
             "alpha / tau / sigma rules, the prox trees L2Reg/Conj/Stack/NoOp, gammas, Vstack([A,G]) and its adjoint, the ADMM "
             "constraint (G or I, -I, 0) — as terms over an operator/vector/prox vocabulary with the source's branch structure, "
             "produced by a symbolic executor with if-conversion and in-place/aliasing tracking). Bridging lemmas (cgArgs_sys, "
             "cgArgs_rhs, gm_gradient, gmArgs_eig, gmArgs_alpha, pdhgArgs_parts_noG/_G, pdhgArgs_steps, pdhgArgs_eig_noG/_G, "
             "admmArgs_noG/_G) give their closed forms over real inner-product spaces (proved up to module/ring normalisation, so "
             "commuted sums or temporaries in the source do not alarm); on them: cgSys_cgRhs_eq_normal, cg_normal_eq, "
             "cg_unique_minimiser (the CG system is the stationarity condition and its solution the unique global minimiser for "
             "every routing of lamda and z), gmEigOp_eq_hessian, gm_fixed_point_iff_minimiser, prox identities (data_conj_biconj, "
             "conj_fixed_point, l2reg_is_prox), pdhg_fixed_point_kkt_noG/_G and admm_fixed_point_kkt_noG/_G (fixed points of the "
             "PDHG / ADMM set-ups are exactly the KKT points of the documented objective for every (lamda, z, proxg, G) case), "
             "kkt_is_minimiser, and default_steps (default_steps_gm: alpha = 1/max_eig with L = max_eig satisfies 0 < alpha, "
             "alpha*L <= 1 and the descent lemma = the hypotheses of C13's ista/fista rates; default_steps_pdhg_primal/dual_noG/_G: "
             "tau*sigma*||K x||^2 <= ||x||^2 for the K handed to the solver) under the hypothesis that max_eig bounds the Rayleigh "
             "quotient of the operator the generated set-up hands to MaxEig. Tie: the translator, plus the driver executing the "
             "generated definitions over exact rationals against recording subclasses patched into sigpy.app (every operator / rhs "
             "/ gradf / prox / gamma / step / closure, 1e-12), the real app stepped update by update against exact-rational machines "
             "carrying the generated set-ups (1e-9), 336 option combinations of the constructor against the decision table, byte "
             "snapshots of y and z.",
        note="Trusted: Lean kernel; translator gen_c14 (its reading of linop/prox constructors: Identity, Multiply(shape, scalar), "
             "Vstack, .H, .N, operator +,*; Prox.__call__ of L2Reg/Conj/Stack transcribed in Model/C14Base.lean — the prox classes are "
             "C11's subject); NOT proved: convergence of the solver classes to those fixed points (C12/C13), complex data, floating "
             "point, the power method's UNDER-estimate of max_eig after finitely many iterations (default_steps assumes a Rayleigh "
             "bound). The objective-gap oracle treats a still-shrinking gap as inconclusive (no alarm).",
        technique="Lean 4 proof (normal equations, conjugates, KKT fixed points, step conditions) about translator-generated set-ups + step-by-step differential correspondence",
        design="DESIGN.md §3 C14, §9"),
    "C08": dict(
        text="Lean 4 theorems about what the translator extracts from sigpy/conv.py and sigpy/linop.py on every run. "
             "Gen/ConvFormulas.lean (output length per mode, the valid-mode admission test, the adjoint buffer lengths, which "
             "correlate mode each adjoint branch picks): conv_out_len_full / _valid / _valid_any / _any (p is exactly the number of "
             "samples 0, s, 2s, ... below scipy's m+n-1 resp. |m-n|+1, for all m, n, s >= 1 and either size order), admit_iff / "
             "admit_cases, adj_buf_len, data/filt_adj_shift(_nd) (with the code's mode choice the correlate shift equals the "
             "convolution offset, both modes, both size orders, per axis with the global all() decision). Gen/ConvWiring.lean (the "
             "three `for k in range(B): for j in range(c_o): for i in range(c_i):` nests of _convolve / _convolve_data_adjoint / "
             "_convolve_filter_adjoint: loop ranges, the slice accumulated into, `+=` vs `=`, the scipy call, its operands and mode "
             "argument, `[slc]` on the result, the statement `output_kj[slc] = output[k, j]` with its enclosing loops and its "
             "position before the use, the normalised layouts, np.zeros vs np.empty and the array whose dtype each buffer is "
             "allocated with): wiring_flags / wiring_loops (decision tables), conv_wiring / data_adj_wiring / filt_adj_wiring "
             "(after the nests output[b,o] = sum_c K(data[b,c], filt[o,c]), data[b,c] = sum_o K(stuffed output[b,o], filt[o,c]), "
             "filt[o,c] = sum_b K(stuffed output[b,o], data[b,c])). Over any commutative *-ring: conv1_entries, data/filt_adj_entries, "
             "data_adjoint / filter_adjoint (1-D), _mc (1-D batch and channels, generated wiring), _2d, adjoint_nd + mkAxes_ok(_admitted) "
             "(any D by recursion over the axes), data_adjoint_nd_mc / filter_adjoint_nd_mc and adjoint_nd_mc_code: the full "
             "statement <conv(d,f), y> = <d, adj_d(y,f)> = <f, adj_f(y,d)> for any D with batch and channel mixing, all strides, on "
             "the whole admitted domain (full; valid with data >= filter on every axis or shorter on every axis), about the "
             "generated wiring + generated formulas; gi_model_is_star_ring. dtype_rule / complex_output_exact: every adjoint buffer "
             "has the dtype of the output-side array, so no dtype combination drops an imaginary part and the rejected ones are "
             "exactly those where numpy's in-place add would cast complex into real. Gen/ConvLinops.lean (constructors, _apply, "
             "_adjoint_linop of ConvolveData / ConvolveDataAdjoint / ConvolveFilter / ConvolveFilterAdjoint): "
             "linop_adjoint_args_agree (same array, mode, strides, multi_channel; own shape argument; swapped oshape/ishape; right "
             "conv function) and linop_double_adjoint. Gen/ConvParams.lean (D, the slices for m, n, b and the indices of the channel "
             "check, c_i, c_o in _get_convolve_params): split_mc / split_sc (data_shape = b + (c_i,) + m and filt_shape = (c_o, c_i) + n "
             "are split into exactly b, m, n, c_i, c_o; ValueError iff the channel counts differ). Deepened (Props/C08Flat.lean): "
             "the translator also emits the strides default and length check, the guard table of _get_convolve_params (every `raise` "
             "in source order with its exception class), every reshape target of the three functions (normalisation and the final "
             "reshape per multi_channel branch) and the shape arguments of their _get_convolve_params calls, and the model consumes "
             "them (guard_table, strides_spec, getParams_eq and the converse splitShapes_inv / getParams_inv: a call gets past "
             "_get_convolve_params iff its shapes are b + (c_i,) + m and (c_o, c_i) + n with len(m) = len(n) >= 1, strides None or of "
             "length D, mode full or an admitted valid size combination). convolve_eq_index / data_adjoint_eq_index / "
             "filter_adjoint_eq_index: the flat-array functions the driver runs and the correspondence compares with sigpy (numpy "
             "reshape / zeros / broadcast / slicing contracts, zero-extended reads, flat loops) EQUAL the index-level definitions "
             "convMCD / dataAdjMCD / filtAdjMCD entry by entry with exactly the advertised / requested shape, for every number of "
             "axes, batch shape, channel configuration, mode, size order and strides; flat_data_adjoint_identity / "
             "flat_filter_adjoint_identity: hence <convolve(d,f), y> = <d, adj_d(y,f)> = <f, adj_f(y,d)> for the arrays those very "
             "functions return. convolve_shape_or_raise / adjoint_shape_or_raise: for ALL argument combinations (ranks, channel "
             "counts, strides argument, mode string, filter longer than data, dtypes, shape of the output-side array) the functions "
             "return an array of exactly the computed shape b + (c_o,) + p / the requested data_shape / filt_shape with that many "
             "elements, or an error - and an array is returned only on an admitted call; convolve_raises_iff / adjoint_raises_iff: the "
             "calls that raise are exactly the non-admitted ones. The four Linop classes are interpreted "
             "from their generated descriptions (linopShapes / linopAdjoint / linopApply run by the driver): linop_H_wiring (.H is "
             "the partner class with the same arguments and swapped shapes, for every mode / strides / multi_channel), "
             "linop_apply_wiring (_apply is the right conv function with the stored arguments), linop_data_pairing / "
             "linop_filter_pairing (<A x, y> = <x, A.H y> for ConvolveData and ConvolveFilter through that wiring). "
             "Tie: translator (a construct outside its subset is a broken obligation) + "
             "exhaustive exact correspondence (D=1 all lengths 1-5 x strides x modes x channel configs x batch; D=2 grid; D=3,4 "
             "sampled; every layer the theorems are about incl. the D-dim batch/channel layer; functions and all Linop classes incl. "
             ".H of the adjoint classes; outputs or error kinds; mixed real/complex dtypes incl. which combinations raise TypeError).",
        note="Trusted: Lean kernel; translator gen_c08; scipy.signal.convolve/correlate index conventions (incl. the operand swap "
             "in valid mode) and numpy slicing/broadcast/reshape are hand-written contracts checked exactly against scipy; numpy's "
             "casting rules (silent complex->real on item assignment, TypeError on in-place add) are a hand-written contract "
             "validated by the mixed-dtype correspondence cases; Linop.__init__'s positive-shape check and Linop.apply's input / "
             "output shape checks are hand-written contracts. Validated by correspondence only: that numpy / scipy raise where "
             "the contracts say (reshape element count, broadcast, negative np.zeros extent, scipy's valid-mode size rule) - the "
             "theorems show these never fire on an admitted call; the exception class of rank mismatches (the model only says "
             "`raises`); zero-size arrays and non-positive strides are outside the model's domain (`err domain`, never requested).",
        technique="Lean 4 proof over translator-generated formulas/branches/loop wiring/dtype flags/Linop argument tables + exhaustive exact differential correspondence",
        design="DESIGN.md §3 C08, §9"),
    "C02": dict(
        text="Lean 4 theorems: an effect/alias IR with a concrete store semantics and an abstract points-to analysis "
             "(Model/C02.lean); analyze_sound (every concrete execution stays inside the analysis result, by induction over the "
             "program with checked post-fixpoints for loops) and noMutation_sound (if the checker accepts a program then after every "
             "execution every buffer that existed at entry - parameters, captured arrays - has its entry contents), ret_sound / "
             "ret_fresh_disjoint (alias claims of results); 103 kernel-checked obligations `noMutation prog_f = true` (by decide) on "
             "IR programs the translator regenerates every run from every Linop._apply / Linop.apply / Prox._prox / Prox.__call__ and "
             "the public functions of util, fourier, interp, conv, block, wavelet, thresh, mri.util and their helpers "
             "(Gen/Effects.lean, Gen/EffectsOk.lean), with summ_f_eq tying call-site summaries to callee analyses; denote_linear "
             "(any entry-list map is additive and homogeneous), tree_linear (by structural induction over the C01 expression "
             "language - 19 leaf classes + Compose/Add/Conj/Hstack/Vstack/Diag - every tree satisfies A(a x + y) = a A x + A y over "
             "any commutative star ring incl. C with complex a), tree_history_deterministic, conj_sandwich_linear / conj_half_antilinear (Conj is C-linear; "
             "dropping one conjugate is not); history_determinism (an _apply that reads only constructor parameters and writes nothing "
             "gives, in every interleaving of apply/.H/.N, the output a fresh object gives). Tie: translator every run + runtime "
             "stream on the real code validating the numpy view/copy table (byte snapshots of all arguments and captured arrays, "
             "np.shares_memory vs the IR's alias claims, repeated calls, exact linearity on Gaussian integers).",
        note="Trusted: Lean kernel; translator gen_c02 and its numpy view/copy table (validated by the runtime stream, not proved); "
             "call = any behaviour within the callee's summary (assume-guarantee, no interprocedural semantics); stores through a "
             "subscript are value copies unless the base is a known container; needsRuntime: util.monte_carlo_sure (user callback), "
             "AllReduce (MPI); in place by contract: util.axpy, util.xpay, fourier._apodize, Alg classes; CuPy arms skipped; "
             "LinearLeastSquares._get_* closures and linearity/determinism of FFT/NUFFT/wavelet/Kaiser-Bessel paths are runtime only "
             "(complex64 linearity tolerance 2e-4 = 1e3 x observed rounding; complex128 1e-10).",
        technique="Lean 4 proof (sound no-mutation analysis, kernel-evaluated per function on translator-generated IR) + runtime validation",
        design="DESIGN.md §3 C02, §9"),
    "C12": dict(
        text="Lean 4 theorems about the ConjugateGradient machine init/update_/update/done that the translator "
             "(harness/translate/gen_c12.py, a statement-by-statement symbolic execution of "
             "ConjugateGradient.__init__/_update/_done, Alg.__init__ through super().__init__ and Alg.update: every assignment one "
             "`let`, every `if` one `if`/`match`, arrays tracked as objects so in-place updates and shared names are exact) "
             "regenerates into Gen/C12.lean on every run, generic over a record of vector-space operations (Model/C12Base.lean; "
             "executed over Gaussian rationals by the driver, reasoned about in an RCLike inner-product space); Model/C12.lean's "
             "definitions ARE the generated ones (model_is_generated, rfl). For Hermitian positive-definite A and optional Hermitian "
             "PD preconditioner P, by induction on the number of updates: cg_residual (r_k = b - A x_k while residual updates are "
             "performed), cg_orth / cg_conj (full orthogonality and conjugacy), cg_krylov / cg_krylov_eq (x_k - x_0 in K_k(PA, P "
             "r_0), directions span it), cg_optimal and cg_optimal_last (A-norm optimal over x_0 + K_k, incl. the final iterate "
             "where the code skips the residual update), cg_monotone, cg_finite (r_n = 0 in dimension n), cg_breakdown / npd_sticky "
             "/ cg_breakdown_converged (pAp <= 0: state unchanged, flag set and sticky, done), cg_early_stop_fixed, "
             "alias_branch_unreachable (whenever self.p is or may be the array self.r - no private copy, max_iter <= 1 - the "
             "generated condition under which _update updates r or p in place is false), x_is_callers_array (self.x is the caller's "
             "array and is never rebound), cg_x_maxiter_irrelevant, cg_real_inner, resid2_eq_rzold, iter_counts_updates, update_eq. "
             "Tie: translator (any statement, operator, comparison, call or attribute outside the subset is a broken obligation) + "
             "the REAL class executed over exact Gaussian rationals (dtype=object arrays of an exact scalar class) and compared "
             "field by field as equal fractions with the Lean driver after __init__ and after every update (PD / singular / "
             "indefinite matrices, n = 1..8, with and without P, A as Linop and as function, max_iter in {0,1,2,n,n+1,n+2}), plus a "
             "float run at 1e-9.",
        note="Trusted: Lean kernel; translator gen_c12 (python ast -> Lean; its reading of util.axpy / util.xpay / xp.real(xp.vdot) "
             "/ .copy() / .item() as the Ops record's operations and of numpy arrays as objects is validated by the exact "
             "correspondence, not proved); the driver's division-by-zero pre-check is hand-written (tied by the correspondence); "
             "IEEE rounding not modelled (float Krylov-optimality demanded at 1e-4 for P none/diagonal only; dense P in float drifts "
             "up to 5e-4 and is judged on the exact run).",
        technique="Lean 4 proof (CG invariants and Krylov optimality by induction) about translator-generated definitions + exact-rational execution of the real class",
        design="DESIGN.md §3 C12, §9"),
    "C13": dict(
        text="Lean 4 theorems about the update formulas the translator extracts from GradientMethod._update and "
             "PrimalDualHybridGradient._update (Gen/C13.lean, one generic model executed over rationals and reasoned about over real "
             "inner-product spaces, prox given by its variational characterisation, f convex with the descent lemma): "
             "gmStep_x_isProx, ista_step_ineq, ista_descent (F never increases for alpha <= 1/L), ista_rate "
             "(F(x_k)-F(w) <= ||x_0-w||^2/(2 alpha k)), t_rule_ok / t_rule_growth, fista_lyapunov, fista_invariants, fista_rate (full "
             "rate 2||x_0-w||^2/(alpha (k+2)^2)), pdhg_fixed_point_iff_saddle (any tau, sigma > 0, any gamma), pdhg_fejer and "
             "pdhg_fejer_monotone (constant scalar steps, theta = 1, tau sigma ||A||^2 <= 1: the coupled distance on the pair the "
             "algorithm couples never increases), pdhg_accel_steps_primal/dual and pdhg_accel_run_primal (theta = 1/sqrt(1+2 gamma "
             "step), tau sigma invariant, min tracked along the whole run). Tie: translator (statement census, order and branch "
             "conditions pinned) + the REAL classes stepped over exact rationals (sqrt values logged and checked at 1e-15) and "
             "compared after every update, float stream for l1, identity of the caller's arrays."
             ' Deepened: array-valued (diagonal) steps - IsProxW (prox in the T^-1-weighted inner product = what an elementwise prox with an array step computes), pdhg_fixed_point_iff_saddle_diag, pdhg_fejer_diag / _monotone / pdhg_fejer_run_diag under MetricPSD (2|<Ax,u>| <= <T^-1 x,x> + <Sigma^-1 u,u>; = tau sigma ||A||^2 <= 1 for scalars: metricPSD_scalar), metricPSD_pock_chambolle (the condition holds for the diagonal-preconditioning steps the harness generates), pdhg_residual_rate_partial (D_N + sum R_k <= D_0, some R_j <= D_0/N: asymptotic regularity at rate 1/N, NOT convergence to the minimiser).',
        note="Trusted: Lean kernel; translator gen_c13; NOT proved: convergence of the PDHG iterates to the minimiser (with or without "
             "acceleration) - decided by the search oracle on planted-solution "
             "instances (incl. Nesterov's tridiagonal); __init__ values, in-place updates, resid and floating point are tied by "
             "correspondence only.",
        technique="Lean 4 proof (ISTA/FISTA rates, PDHG saddle fixed points and Fejer monotonicity) over translator-generated updates",
        design="DESIGN.md §3 C13, §9"),
    "C15": dict(
        text="Lean 4 theorems about definitions the translator regenerates from alg.py / app.py (Gen/AlgDone.lean: Alg counter init "
             "and increment, per-class self-increments, every _done expression of the 11 Alg classes, updates per App.run pass): "
             "loop_bound and loop_bound_<Class> (from iter = 0 the canonical loop performs at most max_iter updates and iter equals "
             "the update count), ctr_iterate, iter_counts_updates, self_incr_zero, app_one_update_per_pass; early_stop_fixed_gm / "
             "_gm_accel / _pdhg / _newton and C12.cg_early_stop_fixed (with tol = 0, done() before max_iter implies the next update "
             "leaves the solution unchanged - for the repaired residuals), pdhg_primal_only_not_fixed / gm_accel_x_only_not_fixed "
             "(exact rational witnesses that the pinned residuals did NOT have the property); power_monotone, power_normalised, "
             "power_le_bound. Tie: translator + counter/done traces of 9 classes and App.run under random done()/update() "
             "interleavings up to max_iter+2, PDHG / GradientMethod stepped against the Lean transcription."
             " Deepened: the PDHG residual formulas and Newton's residual are translator-generated (Gen/C15Resid.lean), C15's PDHG step is C13's generated step; early_stop_fixed_pdhg_general (any gamma_primal, gamma_dual, theta, scalar or array steps: resid <= 0 => saddle point => the next update with the rescaled steps changes neither x nor u), early_stop_fixed_newton_ls (backtracking line search), pdRescale_steps_pos.",
        note='Trusted: Lean kernel; translator gen_c15; SDMM has no run-time traces; the statement order of NewtonsMethod._update and of GradientMethod is transcribed by hand in C15 (tied by the step stream); for PDHG with gamma > 0 the extra-update comparison uses 1e-10 relative (a float fixed point of the old steps is reproduced by the rescaled steps to 1 ulp; in exact arithmetic it is early_stop_fixed_pdhg_general); power_le_bound takes an operator bound L (lambda_max = ||A|| is checked numerically); the extra-update comparison for GerchbergSaxton uses 1e-10 (its least-squares re-solve reproduces the fixed point to 1 ulp only).',
        technique="Lean 4 proof (loop bound over translator-generated done/counter logic, fixed-point theorems) + trace correspondence",
        design="DESIGN.md §3 C15, §9"),
    "C18": dict(
        text="Lean 4 theorems about definitions the translator regenerates from mri/samp.py (Gen/Samp.lean: calibration slice "
             "bounds, radius fields, every comparison/update/break of the bisection, crop test, accept test, mask writes, structural "
             "flags such as get_state/set_state placement and '=' vs '+='): structure_ok, calib_block_bounds / calib_block_size, "
             "mask_binary / mask_monotone / calib_ones / active_list_inv (every reachable sampler state, any radii and draw stream), "
             "crop_keeps_calib (c + 2 <= n), crop_loses_calib_iff (exact class of the known finding) with crop_counterexample_16_15, "
             "crop_outside_zero, crop_binary, returned_within_tol (a returned mask meets |size/sum - accel| < tol, for any sampler "
             "and midpoint function), raise_iff, never_unbound, bisection_direction, stall_exits / interval_shrinks / terminates "
             "(over any finite grid containing the midpoints the repaired loop terminates), deterministic, global_rng_frame(_private). "
             "Tie: translator + exact streams: real numba calibration fill vs generated bounds, _poisson.py_func on scripted draws "
             "vs the Lean sampler machine, bisection traces of real poisson calls vs the Lean loop, r < 1 field vs exact r^2 < 1.",
        note="KNOWN FINDING C18:crop_corner:calib-touches-edge (recorded, not repaired). Trusted: Lean kernel; translator gen_c18; NOT "
             "proved: that float64 (a+b)/2 lies in [a, b] (IEEE; checked on every real trace), numba's private RNG bit-for-bit, float "
             "geometry of candidate points; c = n excluded (r is 0/0); watchdog turns a hang into a violation, slow-but-progressing "
             "calls are inconclusive.",
        technique="Lean 4 proof (sampler and bisection state machines over translator-generated definitions) + trace correspondence",
        design="DESIGN.md §3 C18, §9"),
    "C16": dict(
        text="Lean 4 theorems about definitions the translator regenerates from mri/linop.py Sense and the recon classes of mri/app.py "
             "(Gen/SenseFormulas.lean: batching guard, num_coil_batches, batch range, Vstack axis, slice bounds of mps[...] and "
             "weights[...], per-coil test, keywords forwarded to the batches, FFT axes, exponent of weights**0.5, _estimate_weights "
             "rule, per recon class the y*weights**e exponent and prox/G construction): batch_slices_partition / "
             "sense_batch_partition (the slices [c b, (c+1) b) for c < ceil(n/b) concatenate to 0..n-1 in order for ALL n and b >= 1), "
             "sense_batches_nonempty, sense_denote (the unbatched operator is sqrt(w) * F(mps_c * x) for an abstract linear F), "
             "sense_denote_index (out[c,k] = sqrt(w)[c,k] sum_r F[k,r] mps[c,r] x[r]), "
             "batched_apply, sense_batch_invariant (forward result identical for every batch size with no / shared / per-coil "
             "sliced weights); the adjoint Op.adj of the model (the definition the driver runs against the real A.H): "
             "sense_adjoint_denote / sense_adjoint_index (A^H y = sum_c conj(mps_c) F^H(conj sqrt(w_c) y_c)), vstack_adjoint "
             "(Vstack.H = Hstack: split rows by the batches' coil counts, apply batch adjoints, sum; abstract F^H), "
             "sense_adjoint_batch_invariant (adjoint identical for EVERY batch size b >= 1, no / shared / per-coil sliced "
             "weights), sense_dot_test_abstract (<A x, y> = <x, A^H y> from <F u, v> = <u, F^H v> for an abstract F, F^H), "
             "matrix_adjoint_identity, sense_dot_test / sense_dot_test_complex (the adjoint identity for the model over any "
             "commutative *-ring / C, unbatched and every batch size); weights_exponent_is_half, weights_sliced_with_coils, batch_forwards_all, recon_setup_sense / "
             "_l1wavelet / _tv, recon_objective (sum ||sqrt(w) a - sqrt(w) y||^2 = sum w ||a - y||^2), estimated_weights_sqrt, "
             "consistent_data_recovers (A injective, y = A x0, lamda = 0: x minimises iff x = x0). Tie: translator + the real "
             "operator's A(x) and A.H(y) vs the exact Gaussian-rational model with F supplied as exact fractions of numpy's FFT / "
             "single-coil nufft of basis images (1e-9), reified operator trees, recon set-ups.",
        note="Trusted: Lean kernel; translator gen_c16; hypotheses of the adjoint theorems: the arrays are rectangular (every "
             "coil map has R entries, per-coil weights one row per coil: enforced by the driver's size checks); NOT proved: "
             "that the real A / A.H are the model's Op.apply / Op.adj (compared on every run for every batch size at 1e-9), "
             "that FFT/NUFFT equal the matrix F, that the solvers reach the minimiser (objective "
             "gap vs dense reference), tseg and comm are oracle/correspondence only; L1WaveletRecon only under numerically verified "
             "unitarity of W.",
        technique="Lean 4 proof (batch partition, explicit encoding, recon objectives) over translator-generated set-up + correspondence",
        design="DESIGN.md §3 C16, §9"),
    "C17": dict(
        text="PARTIAL by nature (SVD / power-iteration numerics; recovery depends on smoothness). Lean 4 theorems over C about the "
             "post-processing the translator extracts from EspiritCalib (Gen/EspiritFormulas.lean: calib shape, block/stride "
             "arguments, reshape/transpose steps, threshold test, Gram scale, normalize power/axis/root, reference coil, crop "
             "comparison): normalize_eq, power_step_unit (unit l2 norm across coils, estimate ||Gx|| > 0), phase_ref / "
             "phase_ref_norm (coil 0 becomes |m0| >= 0 real, every modulus unchanged), espirit_keeps_iff (crop test is strictly >), "
             "crop_dichotomy (unit-norm with coil 0 = |m0|, or exactly 0), gram_symmetric / gram_psd, power_monotone / "
             "power_bounded (Cauchy-Schwarz), espirit_scale, calib_shape_steps, calib_index_map / _2d / _3d (entry (row-major "
             "block index, c kw^d + row-major kernel offset) reads calib[c, block + offset], no other entries, for ALL nc, cw, "
             "kw, through the generated loop nests via C09 a2b1_mem / a2b2_mem / a2b3_mem), eigenvalues <= 1: bessel_gram_le, "
             "gram_quadratic_le, eig_le_one_of_orthonormal_kernels, eigenvalue_le_one (abstract: orthonormal kernels v_k, a_k = "
             "T^dagger v_k, ||T x||^2 = kappa ||x||^2, c kappa <= 1 => ||G x|| <= ||x||, <G x, x> <= ||x||^2, |lambda| <= 1) and "
             "eig_le_one_espirit (E = C^{coils x kw^d}, a_k(q)[c] = sum_p v_k[c,p] eps_q(p), |eps|^2 <= 1/N, scale = generated "
             "espiritScale = N/kw^d). Tie: translator + real normalize / PowerMethod._update / _output on exact Pythagorean inputs vs the "
             "model (1e-12, zeros exactly), calibration matrix captured at the real svd call on labelled k-space compared exactly, "
             "and the hypotheses of eig_le_one_espirit on the real intermediates of every run (kept VH rows orthonormal, real AHA = "
             "espiritScale * sum_k a_k a_k^H with the explicit centred-DFT phases, N|eps|^2 <= 1, eigvalsh(AHA) <= 1; all at 1e-10).",
        note="Trusted: Lean kernel; translator gen_c17; eig <= 1 is a theorem only UNDER the hypotheses (numpy's svd returns "
             "orthonormal rows; sp.ifft of the centre-padded kernel is the centred orthonormal DFT) which are checked numerically, "
             "not proved; NOT theorems (search oracle only): the float power iteration's estimate, recovery of the true "
             "maps (1e-2 in the interior, restricted to settings where the unchanged code achieves it: calib_width 12, kernel_width "
             "4), SVD / power-iteration convergence; m0 = 0 voxels (0/0) excluded.",
        technique="Lean 4 proof (per-voxel post-processing algebra) over translator-generated formulas + correspondence + invariant oracle",
        design="DESIGN.md §3 C17, §9"),
}
NOT_YET = "check not built yet in this round (framework exists; see DESIGN.md §8 build order)"

props = [json.loads(l) for l in open(os.path.join(HERE, "properties.jsonl"))]
checks, na = [], []
for p in props:
    pid = p["id"]
    if pid in CLAIMED:
        c = CLAIMED[pid]
        checks.append(dict(
            property_id=pid,
            quick_cmd="./check %s --tier quick" % pid,
            thorough_cmd="./check %s --tier thorough" % pid,
            evidence_file="evidence/%s.json" % pid,
            replay_cmd_template="./check %s --replay {path}" % pid,
            engine="lean4+correspondence",
            level_claimed=dict(category="proof", text=c["text"], design_ref=c["design"]),
            level_note=c["note"],
            technique=c["technique"],
        ))
    else:
        na.append(dict(property_id=pid, reason=NOT_YET))
m = dict(
    version=1,
    setup_cmd="./check setup",
    hooks=dict(guard="SIGPY_VERIF", enable="no hooks: checks import /repo's working tree directly (PYTHONPATH) and "
                                           "regenerate the Lean model from its source",
               baseline_off_cmd=BASELINE, source_commits=[], add_only=True),
    engines=[dict(name="lean4+correspondence", path="lean/", serves_properties=sorted(CLAIMED),
                  kind_free_text="Lean 4.33 theorems about a model regenerated/tied to /repo; Python harness drives the "
                                 "compiled Lean driver and the real sigpy code on the same inputs")],
    checks=checks,
    notes="Entry point ./check Cxx --tier quick|thorough [--replay f]; exit 0 held, 1 violation, 2 infrastructure.",
    not_applicable=na,
)
json.dump(m, open(os.path.join(HERE, "MANIFEST.json"), "w"), indent=1)
print("claimed", sorted(CLAIMED), "not yet", len(na))
