"""Writes MANIFEST.json from the table below (run by hand when a property is added)."""
import json
import os

HERE = os.path.dirname(os.path.dirname(os.path.abspath(__file__)))
BASELINE = "cd /repo && /venv/bin/python -m pytest -ra -q -p no:cacheprovider --timeout=900 --continue-on-collection-errors"

CLAIMED = {
    "C09": dict(
        text="Lean 4 theorems about the translator-generated block loop nests (gather/scatter membership, "
             "scatter = transpose of gather, num_blks maximality) and shape/shift formulas of util.resize and "
             "Down/Upsample, plus index-map theorems (centre alignment for every pad/crop mix, roll inverse, "
             "up/down-sample index round trip). Tie: Gen/*.lean regenerated from sigpy/block.py, util.py, linop.py "
             "on every run + exact integer correspondence of the executable model with the real functions and Linops.",
        note="Trusted: Lean kernel; translator harness/translate (Python ast subset -> Lean); numpy slicing/roll "
             "semantics written by hand in Model/C09.lean (validated by the exact correspondence stream); numba "
             "compiles the kernels as Python would run them. 2-D/3-D block nests are tied by correspondence and "
             "membership theorems are proved for the 1-D nest (2-D/3-D: see DESIGN §3 C09).",
        technique="Lean 4 proof over translator-generated model + exact differential correspondence",
        design="DESIGN.md §3 C09"),
    "C05": dict(
        text="Lean 4 theorems: the fft/ifft pipelines extracted from sigpy/fourier.py by the translator (resize -> ifftshift -> "
             "(i)fftn(norm) -> fftshift; uncentred = bare transform; axis normalisation a % ndim; dtype rule) have DFT exponent "
             "(k-n/2)(j-n/2) mod n for every n (odd/even), k*j uncentred; with a primitive n-th root of unity the scaled matrices "
             "satisfy F^H F = I, IFFT = FFT^H, ifft(fft x) = x, norm preservation, 1/n backward scaling, Kronecker structure over "
             "axes; centred oshape = transform of the centre-padded/cropped input (reusing C09 resize theorems). Tie: Gen/Fourier.lean "
             "regenerated every run + exact comparison of quantised (phase, squared magnitude) matrix columns of the real "
             "fft/ifft/FFT/IFFT with the model's table.",
        note="Trusted: Lean kernel; translator gen_c05; numpy fftn/ifftn/roll contract written by hand in Model/C05.lean and "
             "validated by the quantised correspondence; IEEE rounding not modelled (1e-5 / 1e-10 tolerances when quantising); "
             "n-fold Kronecker induction over an arbitrary axes list is validated, the 2-factor step is proved.",
        technique="Lean 4 proof over translator-generated pipeline + exact quantised differential correspondence",
        design="DESIGN.md §3 C05, §9"),
    "C03": dict(
        text="Lean 4 theorems about an operator-algebra model (Op = oshape, ishape, app; leaves are dense matrices): A*B applies B "
             "then A and is accepted iff A.ishape = B.oshape; A+B/A-B/-A/a*A/A*a laws; _hstack_params/_vstack_params: accepted iff axis "
             "in [-ndim, ndim) and shapes agree off the normalised axis, returned indices are the prefix sums of the operand sizes for "
             "every list of shapes, axis=None accepts everything; the _apply slab bounds [S_k, S_{k+1}) (open-ended last) read back the "
             "parts of a concatenation and write a concatenation with nothing unwritten or overwritten; Vstack applies along the "
             "normalised axis with the summed oshape; misfits rejected. Tie: axis normalisation, fold step, append-before-advance "
             "order and rejection test extracted from linop.py into Gen/StackParams.lean each run (gen_params_agree, "
             "gen_apply_axis_agree) + exact Gaussian-rational correspondence of random expression trees (incl. malformed ones) "
             "built both in sigpy and in the Lean driver.",
        note="Trusted: Lean kernel; translator gen_c03; numpy slicing / slice assignment semantics (sliceAx/rowWrite) and the "
             "sequential per-dimension loop of _hstack_params are tied by correspondence only; operator-level hstack_block_row / "
             "diag_block_diag (geometry glue from slab lemmas to N-d arrays) are validated, not proved; shape guards modelled as "
             "equality (inputs of a different rank are outside the modelled domain).",
        technique="Lean 4 proof over operator-algebra model + translator tie + exact differential correspondence of expression trees",
        design="DESIGN.md §3 C03, §9"),
    "C11": dict(
        text="Lean 4 theorems (Mathlib, real inner-product spaces / R, C): each prox formula the translator extracts from "
             "prox.py / thresh.py (Gen/Prox.lean: soft threshold kernel, L1Reg threshold lamda*alpha, clip, l2 mask formula, "
             "linf = y - soft, L2Reg closed form with bias and inner prox, Conj's Moreau formula, UnitaryTransform, Stack) is the "
             "unique minimiser of 1/2||x-y||^2 + alpha g(x) in the strong form F p + 1/2||p-y||^2 + 1/2||x-p||^2 <= F x + 1/2||x-y||^2 "
             "(so minimal and unique), for real and complex data, incl. ball boundaries and bias; projections fix feasible points and "
             "are idempotent; l1-ball projection under the KKT certificate (theta >= 0, sum(|y_i|-theta)_+ = eps), which the "
             "correspondence verifies exactly for every case of Duchi's search; every nesting returns the input's shape. Tie: "
             "Gen/Prox.lean regenerated each run + correspondence of the real Prox classes/thresh functions with the exact "
             "Gaussian-rational model (exactly representable inputs, 1e-12; Fraction object arrays by equality).",
        note="Trusted: Lean kernel; translator gen_c11 (symbolic execution of straight-line _prox bodies and numba kernels); numpy "
             "elementwise evaluation / sort / cumsum / norm / split-vec plumbing tied by correspondence; Duchi's index search is "
             "certified per case by the exact KKT test, not proved in general; psd_proj's spectral theorem is NOT proved (PsdProj is "
             "decided by the search oracle's normal-cone certificate only); IEEE rounding not modelled.",
        technique="Lean 4 proof over translator-generated prox formulas + exact-rational differential correspondence",
        design="DESIGN.md §3 C11, §9"),
}
NOT_YET = "check not built yet in this round (framework exists; see DESIGN.md §8 build order)"

props = [json.loads(l) for l in open(os.path.join(HERE, "properties.jsonl"))]
checks, na = [], []
for p in props:
    pid = p["id"]
    if pid in CLAIMED:
        c = CLAIMED[pid]
        checks.append(dict(
            property_id=pid,
            quick_cmd="./check %s --tier quick" % pid,
            thorough_cmd="./check %s --tier thorough" % pid,
            evidence_file="evidence/%s.json" % pid,
            replay_cmd_template="./check %s --replay {path}" % pid,
            engine="lean4+correspondence",
            level_claimed=dict(category="proof", text=c["text"], design_ref=c["design"]),
            level_note=c["note"],
            technique=c["technique"],
        ))
    else:
        na.append(dict(property_id=pid, reason=NOT_YET))
m = dict(
    version=1,
    setup_cmd="./check setup",
    hooks=dict(guard="SIGPY_VERIF", enable="no hooks: checks import /repo's working tree directly (PYTHONPATH) and "
                                           "regenerate the Lean model from its source",
               baseline_off_cmd=BASELINE, source_commits=[], add_only=True),
    engines=[dict(name="lean4+correspondence", path="lean/", serves_properties=sorted(CLAIMED),
                  kind_free_text="Lean 4.33 theorems about a model regenerated/tied to /repo; Python harness drives the "
                                 "compiled Lean driver and the real sigpy code on the same inputs")],
    checks=checks,
    notes="Entry point ./check Cxx --tier quick|thorough [--replay f]; exit 0 held, 1 violation, 2 infrastructure.",
    not_applicable=na,
)
json.dump(m, open(os.path.join(HERE, "MANIFEST.json"), "w"), indent=1)
print("claimed", sorted(CLAIMED), "not yet", len(na))
