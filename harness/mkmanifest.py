"""Writes MANIFEST.json from the table below (run by hand when a property is added)."""
import json
import os

HERE = os.path.dirname(os.path.dirname(os.path.abspath(__file__)))
BASELINE = "cd /repo && /venv/bin/python -m pytest -ra -q -p no:cacheprovider --timeout=900 --continue-on-collection-errors"

CLAIMED = {
    "C09": dict(
        text="Lean 4 theorems about the translator-generated block loop nests (gather/scatter membership in 1-3 D, scatter = transpose "
             "of gather, every gather destination written at most once so '=' and '+=' coincide, the number of '+=' updates landing "
             "on an array element = product over axes of the (block, offset) counts, uncovered indices receive none, num_blks "
             "maximality) and the generated shape/shift formulas of util.resize and Down/Upsample, plus array-level specifications "
             "of the model functions the driver runs, in N dimensions: resize_array_spec (input element j lands at output position k "
             "exactly when j_d - i_d//2 = k_d - o_d//2 on every axis with default shifts - every pad/crop mix - zero elsewhere; "
             "explicit shifts; transposition), flip (involution), circshift (sequential rolls = per-axis roll by the summed shift: "
             "repeated axes add, order irrelevant, inverse by negated shifts), downsample / upsample (slice s::f; "
             "downsample*upsample = id, upsample*downsample = mask). Tie: Gen/*.lean regenerated from sigpy/block.py, util.py, "
             "linop.py on every run + exact integer correspondence of the executable model with the real functions and Linops "
             "(incl. a stream of multi-axis circshifts with unsorted / negative / repeated axes).",
        note="Trusted: Lean kernel; translator harness/translate (Python ast subset -> Lean); that the model's numpy slicing / roll / "
             "reshape / _expand_shapes semantics is numpy's is validated by the exact correspondence streams, not proved; numba "
             "compiles the kernels as Python would run them; IEEE plays no role (integer data).",
        technique="Lean 4 proof over translator-generated model + exact differential correspondence",
        design="DESIGN.md §3 C09, §9"),
    "C05": dict(
        text="Lean 4 theorems: the fft/ifft pipelines extracted from sigpy/fourier.py by the translator (resize -> ifftshift -> "
             "(i)fftn(norm) -> fftshift; uncentred = bare transform; axis normalisation a % ndim; dtype rule) have DFT exponent "
             "(k-n/2)(j-n/2) mod n for every n (odd/even), k*j uncentred; with a primitive n-th root of unity the scaled matrices "
             "satisfy F^H F = I, IFFT = FFT^H, ifft(fft x) = x, norm preservation, 1/n backward scaling, Kronecker structure over "
             "axes; centred oshape = transform of the centre-padded/cropped input (reusing C09 resize theorems). Tie: Gen/Fourier.lean "
             "regenerated every run + exact comparison of quantised (phase, squared magnitude) matrix columns of the real "
             "fft/ifft/FFT/IFFT with the model's table."
             " Deepened: the n-fold Kronecker structure is proved for every rank, shape and axes subset (fftn_matrix_entry, fftn_unitary, fftn_unitary_flat, ifftn_eq_conjTranspose, ifftn_fftn_id, fftn_norm_preserved), negative spellings / orderings of the same axis set give the same matrix (axes_normalised_distinct, spellings_same_matrix), the executable table the driver compares with sigpy denotes that matrix (entry_denote, table_eq, sigpy_fft_unitary), and centred oshape = F_Nd(resize(x)) in N dimensions (fft_oshape_eq_fftn_resize, via C09's N-d resize specification); the streams feed C / Fortran / strided / negative-stride layouts, all input dtypes, and same-shape call sequences with different (axes, centre, norm) settings.",
        note="Trusted: Lean kernel; translator gen_c05; numpy fftn/ifftn/roll contract written by hand in Model/C05.lean and "
             "validated by the quantised correspondence; IEEE rounding not modelled (1e-5 / 1e-10 tolerances when quantising); "
             "numpy's 1-D fftn/ifftn/roll contract stays validated by correspondence.",
        technique="Lean 4 proof over translator-generated pipeline + exact quantised differential correspondence",
        design="DESIGN.md §3 C05, §9"),
    "C03": dict(
        text="Lean 4 theorems about an operator-algebra model (Op = oshape, ishape, app; leaves are dense matrices): A*B applies B "
             "then A and is accepted iff A.ishape = B.oshape; A+B/A-B/-A/a*A/A*a laws; Linop.apply with the EXACT shape guards "
             "(call_iff; zip stops at the shorter shape, -1 is a wildcard: zipGuard_iff; equality for equal ranks without -1: "
             "zipGuard_eq_iff / natGuard_eq_iff); _hstack_params/_vstack_params: accepted iff axis in [-ndim, ndim) and shapes agree "
             "off the normalised axis, returned indices are the prefix sums of the operand sizes for every list of shapes, axis=None "
             "accepts everything; N-d slab geometry via the outer x axis x inner decomposition of the row-major layout, READ side "
             "(sliceAx_concat, slabs_concat: slicing a concatenation at the slab bounds returns the parts) and WRITE side "
             "(assembleAx_concat, assemble_concat: nothing unwritten or overwritten); operator level, for every operand list that "
             "passes build: vstack_block_col (Vstack(ops)(x) = concatenation of ops_k(x) along the normalised axis / of the "
             "flattened outputs for None), hstack_block_row (Hstack(ops)(x_1 || ... || x_n) = sum_k ops_k(x_k)), diag_block_diag (all "
             "four oaxis/iaxis combinations incl. the mixed None/axis cases); misfits rejected. Tie: _hstack_params/_vstack_params "
             "are translated statement by statement (fold over shapes[1:], len(shape) != ndim test, fold over i in range(ndim) with "
             "the source's if/elif, shapes[0][axis] IndexError before axis % ndim) into Gen/StackParams.lean each run and proved equal "
             "to the model's combined test for every input (gen_loop_eq_combined, so stack_build_iff / stack_indices_prefix_sums are "
             "statements about the translation: gen_stack_build_iff, gen_stack_indices_prefix_sums); _check_ishape/_check_oshape "
             "translated and proved equal to zipGuard (gen_guard_agree); _apply axis normalisation (gen_apply_axis_agree) + exact "
             "Gaussian-rational correspondence of random expression trees (incl. malformed ones, wrong-shaped inputs and inputs of "
             "a different rank) built both in sigpy and in the Lean driver. Deepened: the bodies of Linop.apply, Compose._apply, Add._apply, "
             "Hstack._apply, Vstack._apply, Diag._apply (start/end selection from indices, the slice tuples, sum vs slice assignment, "
             "ravel / reshape of the mixed None-axis cases, the loop over enumerate(linops) / linops[::-1]) and the constructor guards "
             "_check_shape_positive, _check_linops_same_ishape/_oshape, _check_compose_linops are translated statement by statement "
             "(translator T4, class _Apply) into Gen/LinopApply.lean on every run, written in the numpy primitives of Model/C03Np.lean; "
             "the DRIVER runs these generated definitions (Model/C03Gen.lean), so every correspondence stream compares generated code "
             "with sigpy. Props/C03Gen.lean: generated guards = model guards and construction is rejected exactly when the model's "
             "build fails (gen_*_agree, G_*_build_iff, G_build_agree); generated Linop.apply = Op.call for every operator and input "
             "and accepts exactly the inputs agreeing with ishape on the common prefix (gen_linopApply_eq_call, gen_call_accepts_iff); "
             "generated Compose._apply = model for all inputs (G_compose_eq); generated Add._apply is the left-to-right numpy sum "
             "(gen_addApply_sum, G_add_apply); the block theorems restated about the GENERATED bodies (G_hstack_block_row, "
             "G_vstack_block_col, G_diag_block_diag incl. all four oaxis/iaxis None combinations), via the exchange of the source's "
             "operand-after-operand slice assignment with the row-wise view (seq_rows, seqAssemble); algebra at the denotation level: "
             "compose_call ((A*B)(x) = A(B(x)), composite guards add nothing), compose_assoc (+ _build), add_compose_distrib "
             "((A+B)*C = A*C + B*C on every input), gen_call_shape.",
        note="Trusted: Lean kernel; translator gen_c03 (_Seq, _Apply); the numpy primitives the generated bodies are written in "
             "(Model/C03Np.lean: basic slicing incl. too-many-indices IndexError, slice assignment and a + b incl. numpy broadcasting, "
             "reshape, ravel, empty) and the __init__ wiring of Model/C03Gen.lean (which guard / parameter function is applied to "
             "which list) are hand-written and validated by the correspondence; the block theorems "
             "assume operand outputs of the advertised shapes with prod(shape) entries (automatic for inputs of the advertised "
             "rank); broadcasting in the primitives is executable but no theorem is stated about it; 0-d arrays: accepted by the "
             "generated Linop.apply, but numpy scalars produced by arithmetic on them (Linop.__call__ of a scalar builds a Compose; the "
             "translator checks that dispatch literally) are not modelled; adjoint-structure laws ((aA).H, Hstack.H = Vstack(.H), "
             "Diag.H) are not stated here (adjoints are C01's model). Observation (outside the property's domain, not flagged): the zip guard accepts "
             "inputs whose shape is a proper prefix or an extension of ishape, e.g. Identity([2,3])(zeros(2)) returns shape (2,).",
        technique="Lean 4 proof over operator-algebra model + translator-generated loops/guards/_apply bodies (proved equal to it or carrying the block theorems themselves) + exact differential correspondence of expression trees run on the generated code",
        design="DESIGN.md §3 C03, §9"),
    "C11": dict(
        text="Lean 4 theorems (Mathlib, real inner-product spaces / R, C): each prox formula the translator extracts from prox.py / thresh.py (Gen/Prox.lean: soft threshold kernel, L1Reg threshold lamda*alpha, clip, l2 mask formula, linf = y - soft, L2Reg closed form with bias and inner prox, Conj's Moreau formula, UnitaryTransform, Stack) is the unique minimiser of 1/2||x-y||^2 + alpha g(x) in the strong form F p + 1/2||p-y||^2 + 1/2||x-p||^2 <= F x + 1/2||x-y||^2 (so minimal and unique), for real and complex data, incl. ball boundaries and bias; projections fix feasible points and are idempotent; l1-ball projection under the KKT certificate (theta >= 0, sum(|y_i|-theta)_+ = eps), which the correspondence verifies exactly for every case of Duchi's search; every nesting returns the input's shape. Tie: Gen/Prox.lean regenerated each run + correspondence of the real Prox classes/thresh functions with the exact Gaussian-rational model (exactly representable inputs, 1e-12; Fraction object arrays by equality). thresh.psd_proj: its body is translator-generated (Gen/Prox.lean psdProjWith over the PsdOps record: Hermitian part, eigh as a parameter, eigenvalue clamp, V diag(w) V^H) and proved (psd_proj_prox, any RCLike field) to be the Frobenius projection onto the PSD cone of an arbitrary square input under the spectral contract of eigh (V^H V = I, V diag(w) V^H = A, w real), via psd_proj_spectral (P PSD, H-P NSD, (H-P)P = 0, Re<H-P,Q-P> <= 0) and psd_proj_skew; Duchi's sort/cumsum index search is proved to return a KKT threshold (duchi_theta over the generated l1projSt/l1projCond; l1_proj_duchi_real/complex: soft_thresh(st[idx], y) is the l1-ball projection; duchiTheta_kkt for the executable model).",
        note="Trusted: Lean kernel; translator gen_c11 (symbolic execution of straight-line _prox bodies and numba kernels; array-level extraction of psd_proj over PsdOps); numpy elementwise evaluation / sort / cumsum / flatnonzero.max / norm / split-vec plumbing tied by correspondence (hypotheses of l1_proj_duchi_*: sort(..)[::-1] is a non-increasing arrangement, cumsum the partial sums); numpy.linalg.eigh's spectral contract (hypothesis of psd_proj_prox; checked numerically on every run incl. repeated eigenvalues) and the meaning of +, conj, .T, /k, @, broadcasting *, masked assignment fixed by the PsdOps instances (Mathlib matrices vs exact arrays, compared with the real code on exact spectral data); IEEE rounding not modelled.",
        technique="Lean 4 proof over translator-generated prox formulas + exact-rational differential correspondence",
        design="DESIGN.md §3 C11, §9"),
    "C01": dict(
        text="Lean 4 theorems: coo_adjoint (for ANY entry list over a commutative star-ring, <E x, y> = <x, adjE E y>: removes the "
             "quantifier over x, y); applyF_append/compE/conjE; adj_denote by structural induction over the Expr type mirroring "
             "Compose/Add/Conj/Hstack/Vstack/Diag and every _adjoint_linop; and the leaf pairs discharged IN LEAN for all valid "
             "(symbolic) parameters of ALL 19 exactly representable classes: Identity, Reshape, Slice, Embed, Flip, Circshift (any "
             "shifts/axes incl. repeated, negative, None), Downsample/Upsample, Resize (N-d, differing ranks, default or explicit "
             "shifts, equal-shape early return), Sum/Tile, Transpose (None or any permutation incl. negative entries, argsort "
             "inverse), Multiply (scalar or broadcast array, conj flag, the Reshape*Sum*Multiply(conj) plumbing with "
             "_get_multiply_adjoint_sum_axes), MatMul and RightMatMul (matmul_leaf_adjoint / rmatmul_leaf_adjoint: any matrix "
             "shape [..,m,n], leading batch axes on either side with different ranks, broadcasting of singleton batch axes, "
             "adjoint flag, conj-transpose, and the adjoint exactly as built: Reshape * Sum(_get_matmul_adjoint_sum_axes) * "
             "(Right)MatMul(oshape, mat, not adjoint); method: both entry lists as 4-deep loop nests, the adjoint nest is the forward "
             "nest with two loops interchanged and entries conjugate-transposed), ArrayToBlocks/BlocksToArray (1-3 D, any batch, "
             "overlap/gap/tiling) and Interpolate/Gridding with spline kernels (1-3 D) - the last two about the translator-generated "
             "loop nests; IMPORTED leaf classes through the new `ext` leaf (a class's entries + the entries of the class its "
             "generated _adjoint_linop returns): ConvolveData / ConvolveDataAdjoint / ConvolveFilter / ConvolveFilterAdjoint in the "
             "1-D single-channel case from C08's conv1_entries / data_adj_entries / filt_adj_entries (conv_leaf_proved), FFT / IFFT "
             "over C in N dimensions, any axes, centred or not, from C05's ifft_table_eq_conjTranspose (fft_leaf_proved), Wavelet / InverseWavelet in 1-D over scalars with trivial "
             "conjugation, any length / level / even filter pair, from C10's iwt1_is_adjoint (wave_leaf_proved_partial); "
             "FiniteDifference: the Expr tree is GENERATED from the factory's source and consists of proved leaves only "
             "(finiteDifference_leaves); hence adj_denote_leaves: for every tree over those classes <A x, y> = <x, A.H y> and swapped "
             "shapes hold with NO hypothesis, and normal_gram_leaves (<A.N x, z> = <A x, A z>). The adjoint rules themselves are "
             "translated from linop.py on every run (Gen.LinopAdjoint: every _adjoint_linop of the 19 classes incl. Transpose's "
             "if/else and the R*S*M plumbing, the two sum-axes helpers, Conj/Add/Compose/Hstack/Vstack/Diag, the opaque pairs "
             "FFT<->IFFT, Wavelet<->InverseWavelet, Convolve*<->*Adjoint, NUFFT<->NUFFTAdjoint) and proved equal to the model's adj "
             "(adjLeaf_eq_gen, adj_eq_gen, multiplySumAxes_gen, matmulSumAxes_gen, adjOpaque_table), so adj_denote_gen states the "
             "tree theorem about the generated definitions; the `_apply` side of seventeen classes (Identity, Reshape, Transpose, "
             "Resize, Flip, Circshift, Downsample, Upsample, Sum, Slice, Embed, ArrayToBlocks, BlocksToArray, Interpolate, Gridding, "
             "MatMul, RightMatMul incl. operand order and conj().swapaxes under `adjoint`) is translated too (applyGen: "
             "which numpy / util / block / interp primitive with which attributes in which argument positions, bound through the "
             "callee's signature read from util.py) and proved to be what the model's leafSem0 denotes (leafSem0_eq_prim). Tie: translator (Gen.Block, Gen.Interp, formulas, Gen.LinopAdjoint) + "
             "exact comparison of the implementation's matrices of A and A.H (basis vectors + Gaussian-integer vector) with the "
             "model's entries for 19 leaf classes, random trees, the generated FiniteDifference tree and the imported convolution "
             "leaves (both entry lists of the ext leaf vs the real operator and its .H).",
        note="Trusted: Lean kernel; translator (gen_c01: per-class map attribute -> constructor parameter read from __init__; the "
             "normalised attributes Sum.axes / Tile.axes / Transpose.axes are pinned by source text); the semantics of the "
             "numpy / util primitives (transpose, sum, slicing, flip, roll, resize, ...) are the model's hand-written contracts "
             "tied by the exact correspondence; the `_apply` bodies of Tile and Multiply "
             "(derived attributes / scalar-array branches) are hand transcriptions tied by the exact "
             "correspondence, not regenerated; FFT leaves rest on C05's "
             "table (tied to fourier.py by C05's check, irrational entries are not run through the C01 driver); oracle-only "
             "(dot test, pairing pinned by adjOpaque_table): Wavelet/InverseWavelet in N-d / several axes or over complex scalars (only the 1-D "
             "real case is bridged from C10; the filter bank of a wavelet name is a parameter of the leaf), multi-channel / N-D / batched convolutions (C08 has data_adjoint_mc / _2d; only "
             "the 1-D single-channel entry lists are bridged), NUFFT/NUFFTAdjoint and Kaiser-Bessel Interpolate/Gridding "
             "(irrational weights; C06/C07), ToDevice/AllReduce (no arithmetic), the MRI factories (C16); IEEE rounding not "
             "modelled.",
        technique="Lean 4 proof (entry-list adjoint, leaf pairs, structural induction over operator trees) + exact differential correspondence",
        design="DESIGN.md §3 C01, §9"),
    "C04": dict(
        text="Lean 4 theorems: normal_eq_default/normal_default (operators without an override get A.N = A.H*A acting as x -> "
             "A.H(A x)), normal_gram (<A.N x, z> = <A x, A z>); shortcut_normal_is_identity_{identity,reshape,transpose,circshift} "
             "(entry level of the model: denote(adj e) composed with denote e returns x on the whole index range, for every axes "
             "permutation incl. negative axes / axes=None and every shift / axes list - the gather is a bijection of the index set, "
             "P^H P = I - so the Identity(ishape) override agrees with A^H A); normal_denote_leaves (for every Compose / Add / Conj / "
             "Hstack / Vstack / Diag tree over the C01.LeafProved classes, A.N - override at the top node or default rule - acts as "
             "x -> A^H(A x) with A^H the true adjoint: (A.N x)[j] = <A e_j, A x>); blocks, about the regenerated loop nests "
             "Gen.a2b{1,2,3} / Gen.b2a{1,2,3}: b2a1_a2b1_cover, b2a2_a2b2_cover, b2a3_a2b3_cover ((A^H A x)[b,i] = prod_axes cover(i_axis) "
             "x[b,i]), cover_tiling / cover_overlap / cover_gap, cover_one_iff_tiling (with num_blks from ArrayToBlocks.__init__: cover = 1 "
             "on all of 0..L-1 iff (S = B and B | L) or B = L), cover_le_one_iff and b2a_normal_identity_iff (BlocksToArray.N = A A^H "
             "is the identity on block arrays iff B <= S or a single block), witnesses blocks_identity_wrong_witness (L=5,B=2,S=1), "
             "blocks2_identity_wrong_witness, cover_nondividing_witness (L=5,B=S=2: stride == block is not enough). "
             "Tie: exact comparison of the implementation's A.N matrix with the model's normal e for all leaf classes and random "
             "trees; real A.H(A(1)) and A.N(1) of ArrayToBlocks in 1-3 D vs the per-axis cover counts printed by the Lean driver "
             "(C04.coverAxis); FFT/IFFT shortcut is C05's dftMatrix_unitary.",
        note="Trusted: as C01 (MatMul / RightMatMul and the imported conv / FFT leaves are inside C01.LeafProved, hence covered by "
             "normal_denote_leaves). Side conditions of the shortcut theorems: non-negative extents. b2a_normal_identity_iff is proved "
             "for the 1-D loop nests (2-D / 3-D: cover level per axis + search oracle). Toeplitz NUFFT normal is "
             "decided by the search oracle only (relative l2 error <= 6% at defaults, 0.6% at oversamp 2 = twice the C06 bound).",
        technique="Lean 4 proof (normal = adjoint composed with operator; block cover counts) + exact differential correspondence",
        design="DESIGN.md §3 C04, §9"),
    "C19": dict(
        text="Lean 4 theorems over C about definitions the translator regenerates on every run from mri/rf/sim.py, optcont.py and "
             "slr.py (Gen/Sim.lean: per-simulator step maps, parameter formulas av/bv/alpha/beta with cos/sin of ONE half angle as "
             "atoms, final rephasing, abrm's balanced block, abrm_ptx's output map, the whole-simulation folds, the exponents of the "
             "gradient phases, ab2rf's sj / peel / slices): su2_step_norm; ck/nd/hp/bs/ptxParams_valid (the source's formulas satisfy "
             "|av|^2+|bv|^2 = 1 under the atom constraints); gen_unitary_{abrm,abrm_nd,abrm_hp,blochsim,abrm_ptx} (|alpha|^2+|beta|^2 "
             "= 1 for EVERY waveform length), gen_zero_rf_* (beta stays 0, |alpha| = 1), gen_compose_* and "
             "gen_compose_abrm_hp_code / gen_compose_blochsim_code (simulating w1 ++ w2 is the SU(2) product, with the code's own "
             "final rephasing: hp/bs_frame_exponents, zf^2 prod z = 1 proved from the source's exponents), abrm_balanced_norm; "
             "ab2rf_inverts_forward and ab2rf_inverts_forward_code (for every pulse length, peeling the polynomial pair built by the "
             "forward SLR recursion returns the pulses exactly, with the code's own c_j formula); gen_unitary_abrm_balanced (time loop "
             "+ rewinder). Props/C19Slr - hard-pulse simulation IS the forward SLR recursion and ab2rf its two-sided inverse, in the "
             "source's conventions (abrm_hp: b <- b z with z = exp(-1j(x g + dom0dt)), a' = aC - b conj S, b' = aS + bC, S = 1j "
             "e^{i angle rf} sin(|rf|/2), final zf; ab2rf's arrays are a_slr = reverse(conj A), b_slr = 1j reverse(conj B), (cj, sj) "
             "= (C, -1j S)): hpPoly_eval / blochsim_hpPoly_eval (the generated abrmHpSim / blochsimSim from (1,0) at gradient phase "
             "z equal zf (A(z), B(z)) resp. zf (A(z), z B(z)) for EVERY complex z, (A, B) = coefficient lists hpPoly of the "
             "recursion A_j = C_j A_{j-1} - conj(S_j) z B_{j-1}, B_j = S_j A_{j-1} + C_j z B_{j-1}), hpPoly_length (exactly n "
             "coefficients: degree < n), hpPoly_eval_code (with the generated exponents: |z| = |zf| = 1, zf^2 z^Nt = 1), hpPoly_unit_circle (|A|^2+|B|^2 = 1 on |z| = 1) and hpPoly_paraconj_identity / "
             "circle_id_poly (the same as an identity in C[X]: A A~ + B B~ = X^{n-1}, via infinitely many roots), toSlr_hpPoly "
             "(the simulation's polynomials written as ab2rf's arrays are the forward recursion fwdRev), ab2rf_hp_roundtrip "
             "(ab2rf o forward = id: for ANY hard-pulse train with |rf| < pi the backward recursion with the code's sqrt formula, "
             "generated sj and peel returns every sample's (cos(|rf|/2), e^{i angle rf} sin(|rf|/2))), ab2rf_sample_rf (2 "
             "arctan2(|sj|, cj) e^{i angle sj} is then rf itself), peel_inverts / forward_ab2rf (forward o ab2rf = id: for ANY pair "
             "of n >= 1 coefficients each with |a|^2+|b|^2 = 1 on the unit circle and real positive a[n-1], ab2rf emits valid "
             "rotations and the forward recursion rebuilds (a, b) exactly) and forward_ab2rf_sim (so the generated abrm_hp of the "
             "recovered pulse has the polynomials toSlr(a, b)). Tie: translator (fail-closed) + real simulators vs the exact "
             "Gaussian-rational run of the generated simulation on per-sample atoms (1e-12, abrm also with balanced=True), ab2rf vs "
             "exact (c_j, s_j) on Pythagorean pairs, real abrm_hp / blochsim with a constant gradient at dyadic positions vs the "
             "model's exact polynomial evaluation zf (A(z), B(z)) (1e-12) and the real ab2rf on the model's pair vs the pulse (1e-6).",
        note="Trusted: Lean kernel; translator gen_c19; the atom-defining statements (om, phi, n, normfact) are only checked not to "
             "read the state - their content and the unit-axis hypothesis nx^2+ny^2+nz^2 = 1 are tied by the correspondence (the "
             "code's +eps makes it inexact anyway); np.arctan2(y, x) / np.angle / np.sqrt / np.abs are read as arg(x + iy) / arg / real "
             "sqrt / modulus; the SLR polynomial theorems are about the two hard-pulse simulators (abrm / abrm_nd / abrm_ptx rotate "
             "about the tilted axis in one step: their Cayley-Klein parameters are not polynomials in z) under the constant-gradient "
             "hypothesis (the same z for all samples); NOT proved: b2a / mag2mp / dzrf (numerical: round-trip oracle only, 1e-6 on "
             "exact pairs, 1e-3 through b2a), blochsim's n-D x @ g read as 1-D; float rounding not modelled (the float backward "
             "recursion is ill-conditioned for long trains of near-pi pulses: oracle restricted to prod cos(|rf|/2) not tiny).",
        technique="Lean 4 proof (SU(2) norm identity, induction over waveform, forward SLR recursion = hard-pulse simulation, inverse-SLR peeling both ways) over translator-generated simulators",
        design="DESIGN.md §3 C19, §9"),
    "C20": dict(
        text="Lean 4 theorems over R about the formulas the translator extracts from trap_grad / min_trap_grad (Gen/TrapGrad.lean: "
             "ramp lengths, triangle/trapezoid test, flat length, rescale factor, flat count with its max(.,1) guard, gmax cap; every "
             "ceiling / comparison is a numbered site): for all positive area, gmax, dgdt, dt the waveform starts and ends at 0, "
             "sum(trap)*dt = area exactly, |g| <= gmax and |dg|/dt <= dgdt in both regimes incl. joints (trap_meets_limits, "
             "min_trap_meets_limits with flat-top area = area), ramppts >= 1, min_trap_defined (the error branch is exactly 2*area < "
             "dgdt*dt^2). Bridge proved (Props/C20Rat): rat_real_agree / trapGrad_cast / minTrapGrad_cast - casting the rational "
             "inputs to R commutes with every generated formula (Rat.ceil = Int.ceil, Nat.ceil = toNat of it, ordered-field "
             "embedding, checked sqrt hints = the real ceil/floor of the root), so trap_meets_limits_rat / min_trap_meets_limits_rat "
             "/ trap_area_rat hold for the exact rational waveform the driver computes and the correspondence compares with the real "
             "code. spokes_grad: the assembly (per-spoke loop, sign alternation, zero padding, blip placement by slicing, rewinder, "
             "k-space differences / 4257) is translator-generated (Gen/Spokes.lean) with abstract designers; spokes_closed_form, "
             "spokes_limits (all three axes zero-ended within the limits, under the explicit domain condition that every blip fits "
             "into one slice-select lobe), spokes_kspace (4257*sum(g)*dt over a spoke's segment = k[i+1]-k[i], k[n]=0), "
             "spokes_limits_designers (no hypothesis on the designers left). ceil_perturb_iff / ceil_stable: float ceil differs from "
             "exact ceil iff an integer separates the rounded double from the exact argument. Tie: Gen/TrapGrad.lean, Gen/Spokes.lean "
             "regenerated each run + real functions vs the exact rational model, following the float code through the doubles it "
             "rounded at each site (ties compared exactly, none skipped); real spokes_grad with table designers vs the generated "
             "assembly, inside and outside the domain condition.",
        note="Trusted: Lean kernel; translator gen_c20 (fail-closed statement-level translator for the spokes assembly); numpy "
             "linspace/concatenate/ones/sum/vstack and list slicing. Not proved: IEEE rounding itself (where a rounding crosses an "
             "integer the float path differs from the exact path the _rat theorems are about; such cases occur only within ~1e-16 of "
             "a tie, are counted on every run, compared exactly via the recorded double, and absorbed by the property's 1e-9 slack). "
             "Outside the domain condition of spokes_limits (a blip longer than one slice-select lobe) the real code raises at "
             "np.vstack or silently overwrites the previous spoke's tail - recorded as an observation, reproduced by the generated "
             "model, not a violation.",
        technique="Lean 4 proof over translator-generated design formulas and assembly + exact-rational differential correspondence",
        design="DESIGN.md §3 C20, §9"),
    "C07": dict(
        text="Lean 4 theorems about the six numba loop nests regenerated from sigpy/interp.py (Gen/Interp.lean) and the generated "
             "spline kernel (Gen/InterpKernels.lean): window_iff_abs (the integers ceil(c-W/2)..floor(c+W/2) are exactly those with "
             "|i-c| <= W/2, ties included), interp{1,2,3}_mem (the update list is exactly the documented sum: periodic % n wrap, "
             "separable product weight, coord[...,-d] paired with width[-d], param[-d] and grid axis -d), grid{1,2,3} = literally the "
             "interpolate list with destination and source swapped (same weights, same order), kernels_accumulate (all six use +=) "
             "and runUpd_acc_eq_sum (so coincident / wrapped contributions add), transpose_pairing, shift-by-period invariance, "
             "spline_kernel_doc / spline2_breakpoint (orders 0,1,2 equal the documented piecewise polynomials, zero outside [-1,1]). "
             "Tie: Gen files regenerated every run + exact correspondence on dyadic coordinates / widths (basis matrices, bitwise "
             "gridding = interpolate^T), Python wrappers by correspondence."
             ' Deepened: the Python wrappers interpolate / gridding are translator-generated statement by statement (Gen/InterpWrappers.lean: ndim, batch/points shapes, every reshape target, scalar-vs-sequence width/param broadcasting, dispatch index and kernel tables, output reshape) with interpolateW_spec / griddingW_spec / wrapper_spec; the executable array semantics is linked to the function-level one (applyUpd_eq_runUpd, applyUpd_eq_sum), so interpolate_value_spec / gridding_value_spec hold for what the driver runs.',
        note="Trusted: Lean kernel; translator; the Python list/slice/reshape semantics the generated wrappers are interpreted with (Model/C07Py.lean) and the domain guard 1 <= ndim <= 3 are hand-written and tied by correspondence; the cupy branch is not modelled; the Kaiser-Bessel kernel has no rational model: its update structure is compared exactly (driver emits kernel arguments, harness multiplies sigpy's own kernel values) and its values are checked against scipy.special.i0 at 2.5e-7 by the oracle only; float rounding not modelled.",
        technique="Lean 4 proof over translator-generated loop nests + exact differential correspondence",
        design="DESIGN.md §3 C07, §9"),
    "C06": dict(
        text="PARTIAL by nature: the 3% / 0.3% accuracy bound of Kaiser-Bessel gridding is analytic and is NOT proved - it is "
             "measured by the search oracle (per-coordinate row error of the implementation matrix vs the exact NUDFT: worst found "
             "2.2% / 0.24%). Lean 4 theorems carry the structure: os_sites_agree / oversampLen_ge (the three oversampled-length "
             "sites agree; padding never crops), scaleCoord_period and nufft_periodic{1,2,3} (shifting coordinates by whole image "
             "periods leaves the interpolation update list literally unchanged), nudft_periodic, grid_centre_consistency / "
             "crop_centre_consistency / dc_lands_on_centre (zero-pad, crop, _scale_coord shift and _apodize centre use the same "
             "centre; reuses C09), scale_consistency / pipeline_adjoint / nufft_adjoint_is_adjoint (abstract: stagewise adjointness "
             "with the code's scalings given the stage facts) and nufft_adjoint_is_adjoint_1d / _1d_code / _2d: the CONCRETE "
             "pipelines on C^N -> C^L -> C^M (one and two transform axes) built from a real diagonal apodisation, C09's zero-pad / crop "
             "model (resizeMat / resizeMatNd; adjoint pair by C09.resize_transpose / resize_transpose_nd), C05's centred DFT matrices "
             "(L * uIFFT = uFFT^H by idftMatrix_eq_conjTranspose; 2-D: Kronecker product) and C07's generated update lists Gen.interp1/2, "
             "Gen.grid1/2 run with C07's runUpd with real weights (grid = interp^T, transpose_pairing, in-bounds) satisfy "
             "<nufft x, y> = <x, nufft_adjoint y> with NO stage hypothesis left - only: apodisation weights real, kernel real-valued. "
             "Toeplitz normal operator: the translator extracts toeplitz_psf (embedding factor fed through the generated oversampLen / "
             "scaleCoord, unit-sample index, final factor, call arguments resolved against the signatures) and checks "
             "NUFFT._normal_linop (toeplitz_psf(self.coord, self.ishape, self.oversamp, self.width); T = R.H F.H P F R; FFT orthonormal); "
             "toep_embed_len (= 2N), toep_coord_doubled (2c + one period), toep_delta_on_centre, toep_final_mul (2^ndim compensates the two "
             "normalisations), toep_psf_is_kernel, nudft_gram_toeplitz (A^H A of the exact NUDFT is Toeplitz with kernel "
             "|c|^2 sum_j exp(2 pi i k_j d / N)), circulant_diagonalised and toeplitz_embedding_exact / toeplitz_structure: with sigpy's "
             "CENTRED conventions (C09 pad/crop N <-> 2N, C05 centred orthonormal DFT of length 2N, p = centred unnormalised DFT of "
             "psf[m] = t(m - N)), R^H F^H diag(p) F R equals the Toeplitz matrix t(n - n') entry by entry (1-D). "
             "Deepened: (1) nufft_adjoint_is_adjoint_{1,2,3}d_batch / _3d / _3d_code: the concrete pipelines in 1, 2 and 3 transform "
             "dimensions with a leading batch axis of any length B (C09's N-d resize on the full shapes [B,N..] <-> [B,L..], "
             "1_B (x) U_L1 (x) .. (x) U_Ld with adjointness composed axis by axis: adjScaled_one / _dft / _kron, C07's Gen.interp{1,2,3} / "
             "Gen.grid{1,2,3} with batch_size = B, generated scalings with prodN, prodOs over the transform axes) satisfy "
             "<nufft x, y> = <x, nufft_adjoint y> for any oversamp / width / kernel / coordinates; interp{1,2,3}_batch_diagonal (batch items "
             "never mix); apodWeight_real / apodize3_is_real_diagonal: the weights a/sinh(a), a = (beta^2 - x^2)**0.5 (principal complex "
             "root, also where it is imaginary) that _apodize computes are real, so the 'real weights' hypothesis holds for the code's "
             "formula; sep_encoding{2,3} / interp{2,3}_weights_separable: the (K, wt) parametrisation of the generated rational product "
             "weights covers every separable REAL kernel (Kaiser-Bessel) in 2-D / 3-D. (2) N-d Toeplitz: circDiag_axis / circDiag_kron "
             "(circulant diagonalisation is inherited by Kronecker products for non-separable kernels), resizeMatNd_pad2/3, "
             "toeplitz_embedding_exact_2d / _3d, nudft_gram_toeplitz_2d / _3d, toeplitz_structure_2d / _3d: R^H F^H diag(p) F R = A^H A of "
             "the exact NUDFT in 2 and 3 dimensions with sigpy's centred conventions on every axis. (3) exact NUDFT reference: "
             "nudft_periodic_coord, nudftTerm_shift / nudftOn_shift (shift covariance), nudftTerm_modulation / nudft_modulation "
             "(modulation covariance), nudftTerm_norm / nudft_row_normSq; ERROR IDENTITY of the generated 1-D pipeline nufft1 with the "
             "kernel as a parameter: interpLin_apply (Gen.interp1 as the explicit window sum), ufft_resize_apply, phase_split, "
             "nufft1_eq_nudft_times_kernel: nufft(x)(k) = sum_n x_n N^-1/2 e^{-2 pi i k (n-N//2)/N} [a_n S(kappa, n-N//2)], "
             "S = (1/W) sum_{|i-kappa|<=W/2} wt(K((i-kappa)/(W/2))) e^{-2 pi i (i-kappa) nu/L} (kernelSum; depends on kappa mod 1: "
             "kernelSum_shift), nufft1_error_identity, nufft1_error_le, nufft1_row_error (the relative row error the oracle measures "
             "IS sqrt(mean_n |a_n S - 1|^2)) and nufft1_row_error_le: the stated accuracy reduces to a bound on Kaiser-Bessel alone; the same "
             "identity entry by entry for the batched 1-D pipeline (nufft1B_eq_nudft_times_kernel), the 2-D pipeline "
             "(nufft2_eq_nudft_times_kernel, nufft2_error_identity) and the batched 3-D pipeline (nufft3B_eq_nudft_times_kernel) with the "
             "PRODUCT of the per-axis kernel sums (separable weights: hypothesis hsep, satisfiable for arbitrary real kernels by "
             "sep_encoding2/3), row_error_phases, and nufft1B_per_item / nufft3B_per_item: a batched transform is the same linear map on "
             "every batch item (previously oracle-only C06:batch). "
             "New correspondence stream 'identity': matrices of the real nufft / nufft_adjoint (1-3 D) against NUDFT x apodisation x "
             "kernel sum built from the driver's window data (Model/C06 kernelArgs on Gen.interp1, = kernelSum by kernelArgs_spec) at 1e-9 "
             "(observed 6e-14). os_sites_agree / oversampLen_ge / toep_embed_len proofs made robust to commuting the product inside ceil. "
             "Tie: Gen/NufftFormulas.lean regenerated every run (formulas, stage order, beta, arguments handed to "
             "interpolate/gridding, toeplitz_psf, _normal_linop) + recorded real nufft/nufft_adjoint runs (os_shape, scaled coordinates, "
             "scalings at 1e-12).",
        note="Trusted: Lean kernel; translator gen_c07; float ceiling ties handled by evaluating the model at the effective rational "
             "oversamp fl(os*N)/N; accuracy bound, Kaiser-Bessel values and rounding are oracle-only; periodicity at 1e-6 is "
             "skipped at window-edge ties (exact arithmetic equality is the theorem). The concrete adjoint theorems assume real "
             "apodisation weights (proved for the _apodize formula, whose shape the translator checks syntactically) and interpolation "
             "weights that are a real function of the generated weight (covers separable real kernels); batch axes are modelled as one "
             "flattened axis (what interpolate / gridding do); per-item action of resize / fft / _apodize on an unflattened batch shape is "
             "oracle-only. The error identity is proved for the 1-D, batched 1-D, 2-D and batched 3-D pipelines (batched 2-D: identity stream only); the "
             "Poisson (sum over aliases) form of S and the 3 % / 0.3 % bound on S for Kaiser-Bessel are not proved. "
             "The Toeplitz theorems are about the exact kernel: the accuracy of the psf COMPUTED by toeplitz_psf (approximate nufft of "
             "a unit sample, complex64) is oracle-only (A.N(x) vs A.H(A(x)) at oversamp=2, width 7/8 within 3e-4; clean maximum 2.6e-5); "
             "Toeplitz embedding with a batch axis not written out.",
        technique="Lean 4 proof of pipeline structure over translator-generated formulas + correspondence; accuracy measured by oracle",
        design="DESIGN.md §3 C06, §9"),
    "C10": dict(
        text="PARTIAL by nature (the transform is PyWavelets' C code). Lean 4 theorems: glue extracted by the translator "
             "(Gen/C10Formulas.lean) - zshape_spec (padded length even, >= i, adds i % 2), shape_consistent (get_wavelet_shape and "
             "fwt use the same padding and the same wavedecn/coeffs_to_array calls), inverse_mirrors_forward, pad_extra_zero_in_front, "
             "crop_is_pad_adjoint, pad_crop; filter-bank mathematics over any commutative ring in PyWavelets' indexing - "
             "synthesis_is_adjoint (any filters), qmf_perfect_reconstruction and qmf_isometry_1level (under support + completeness, "
             "any signal length incl. odd and shorter than the filter; complete_window: the coefficients pywt keeps lose nothing), "
             "Haar instance (haar_supported/complete/orthonormal/real), isometry_comp / adjoint_comp / rows / cols (levels, axes), "
             "dwt1_isometry / wavedec_isometry / wavedec_packed_isometry for the executed list model at every level count; "
             "multi-level 1-D list model incl. pywt.waverec's trimming rule: waverec_wavedec / wavedec_perfect_reconstruction (every "
             "level count, every length, odd intermediate lengths), wavedec_adjoint (arbitrary coefficient lists, any filters); the full "
             "1-D sigpy pipeline (pad to even with the zero in front, wavedec, pack | unpack, waverec, centre crop): fwt1_iwt1_id, "
             "iwt1_is_adjoint, fwt1_isometry, fwt1_length; separable N-d at level 1 over an arbitrary list of axes: "
             "fwtn_level1_isometry/_adjoint/_pr (applyAxes_*; tied to the executed model by fwt1_level1_eq); complete_of_qmf_pair: "
             "Complete follows from the orthonormality of dec_lo alone when dec_hi is its alternating flip (fwt1_iwt1_id_qmf, "
             "fwt1_isometry_qmf); MULTI-LEVEL N-D (Props/C10Ml.lean, model Model/C10Nd.lean): pywt.wavedecn's recursion on the approximation "
             "block and coeffs_to_array / array_to_coeffs' block layout (detail blocks at the accumulated offsets, zero filling where "
             "2*n_{j+1} > n_j) as per-axis level maps (levelMap) + sub-box overwrite (fwtnRec / iwtnRec), with sigpy's pad-to-even / "
             "centre crop on every axis: fwtn_isometry, fwtn_adjoint (any filters, arbitrary coefficient arrays), fwtn_pr for EVERY "
             "level count (level=None included), rank, duplicate-free axes list and shape (odd sizes), stated on the advertised box "
             "(fwtnOutShape_eq_waveShape: that box is waveShape = Wavelet.oshape); zShape_eq_gen / padMap_eq_gen tie the padding step "
             "to the generated zshape formula and the C09 resize model; maxLevel_spec (level=None is the largest J with (L-1)2^J <= n); "
             "the driver executes tabulating twins fwtnM/iwtnM proved equal to fwtn/iwtn (fwtnM_app, iwtnM_app). "
             "Tie: translator + every run checks that all 75 orthogonal pywt wavelets satisfy the "
             "orthonormality/completeness sums (1e-10), that dec_hi is the alternating flip of dec_lo (exact), and that pywt.dwt/idwt/"
             "wavedec/waverec, sp.fwt/iwt, Wavelet(.H) equal the exact rational Lean model (1e-10), shapes, packing round trip, "
             "N-d level 1 = per-axis composition of the model, multi-level N-d sp.fwt / sp.iwt / Wavelet(.H) value by value against the "
             "executed fwtnM / iwtnM (ndlevels stream: odd sizes, axes subsets incl. negative/reordered, levels None/1/2/3, arbitrary "
             "coefficient arrays), pywt.dwt_max_level vs maxLevel, recorded pywt call arguments.",
        note="Trusted: Lean kernel; translator gen_c10; pywt's filter taps and C implementation are a CONTRACT validated every run, "
             "not proved (incl. that pywt's Python multilevel/packing layer computes the modelled recursion and layout: validated value "
             "by value on every run); the general Orthonormal -> Complete (g not assumed to be the flip of h) is not proved - it is the "
             "left-inverse = right-inverse property of the 2x2 polyphase matrix over Laurent polynomials (Matrix.mul_eq_one_comm); the "
             "translation of the finsum identities into that form is missing, and the flip hypothesis used instead is checked bit-for-bit; "
             "axes are modelled reduced mod ndim and duplicate-free (pywt raises otherwise); complex data = real and imaginary parts "
             "separately (oracle).",
        technique="Lean 4 proof (glue + filter-bank theorems) + contract validation of PyWavelets by exact-rational correspondence",
        design="DESIGN.md §3 C10, §9"),
    "C14": dict(
        text="Lean 4 theorems about definitions REGENERATED from sigpy/app.py on every run: the decision function of _get_alg "
             "(Gen/C14Select.lean: select_default, select_named, rejects_iff, select_total) and the four set-ups "
             "_get_ConjugateGradient / _get_GradientMethod / _get_PrimalDualHybridGradient / _get_ADMM (Gen/C14Setup.lean: cgArgs, "
             "gmArgs, pdhgArgsNoG/G, admmArgsNoG/G = the arguments handed to the solver classes — system operator and right-hand "
             "side, the closures gradf / minL_x / minL_v as functions of the captured state, the operator given to MaxEig, the "
             "alpha / tau / sigma rules, the prox trees L2Reg/Conj/Stack/NoOp, gammas, Vstack([A,G]) and its adjoint, the ADMM "
             "constraint (G or I, -I, 0) — as terms over an operator/vector/prox vocabulary with the source's branch structure, "
             "produced by a symbolic executor with if-conversion and in-place/aliasing tracking). Bridging lemmas (cgArgs_sys, "
             "cgArgs_rhs, gm_gradient, gmArgs_eig, gmArgs_alpha, pdhgArgs_parts_noG/_G, pdhgArgs_steps, pdhgArgs_eig_noG/_G, "
             "admmArgs_noG/_G) give their closed forms over real inner-product spaces (proved up to module/ring normalisation, so "
             "commuted sums or temporaries in the source do not alarm); on them: cgSys_cgRhs_eq_normal, cg_normal_eq, "
             "cg_unique_minimiser (the CG system is the stationarity condition and its solution the unique global minimiser for "
             "every routing of lamda and z), gmEigOp_eq_hessian, gm_fixed_point_iff_minimiser, prox identities (data_conj_biconj, "
             "conj_fixed_point, l2reg_is_prox), pdhg_fixed_point_kkt_noG/_G and admm_fixed_point_kkt_noG/_G (fixed points of the "
             "PDHG / ADMM set-ups are exactly the KKT points of the documented objective for every (lamda, z, proxg, G) case), "
             "kkt_is_minimiser, and default_steps (default_steps_gm: alpha = 1/max_eig with L = max_eig satisfies 0 < alpha, "
             "alpha*L <= 1 and the descent lemma = the hypotheses of C13's ista/fista rates; default_steps_pdhg_primal/dual_noG/_G: "
             "tau*sigma*||K x||^2 <= ||x||^2 for the K handed to the solver) under the hypothesis that max_eig bounds the Rayleigh "
             "quotient of the operator the generated set-up hands to MaxEig. Tie: the translator, plus the driver executing the "
             "generated definitions over exact rationals against recording subclasses patched into sigpy.app (every operator / rhs "
             "/ gradf / prox / gamma / step / closure, 1e-12), the real app stepped update by update against exact-rational machines "
             "carrying the generated set-ups (1e-9), 336 option combinations of the constructor against the decision table, byte "
             "snapshots of y and z. Deepened (round 3): COMPLEX data (Props/C14Cplx.lean: the set-ups over inner-product spaces over "
             "R or C with the real inner product re<.,.>, transfer lemma isAdj_restrict; cg_normal_eq_rc, cg_unique_minimiser_rc, "
             "gm_gradient_rc, gm_fixed_point_iff_minimiser_rc, kkt_is_minimiser_rc, pdhg/admm_fixed_point_kkt_noG/_G_rc, "
             "default_steps_gm_rc, the spelled-out C instances cg_unique_minimiser_complex / gm_fixed_point_iff_minimiser_complex); "
             "END-TO-END JOINS with C12/C13 (Props/C14Join.lean): cgSysK_eq/_symm/_quad/_psd/_hpd (the generated CG operator is "
             "Hermitian, PSD for lamda >= 0, HPD when lamda > 0 or A injective), cg_route_reaches_minimiser (the GENERATED CG machine "
             "on the GENERATED system, P=None, any start, max_iter > dim: after K <= dim updates x_K is THE minimiser of the "
             "documented objective, done() true for every tol >= 0 and, with tol = 0, false before K), cg_route_psd_partial (lamda = 0, "
             "A not injective: every solution of the system is a minimiser; breakdown iff p in ker A), gm_route_rate (generated gradf "
             "and default alpha: F(x_k)-F(w) <= ||x0-w||^2/(2 alpha k) un-accelerated, <= 2||x0-w||^2/(alpha (k+2)^2) accelerated, F "
             "the documented objective), ista_descent_relaxed, pdStep_both_pos, proxfc_data_proxOf, pdhg_route_fejer_noG_partial "
             "(no G, lamda > 0: the generated steps meet C13's Fejer hypotheses; two hypotheses remain); POWER METHOD "
             "(Gen/C14Power.lean generated from PowerMethod/Alg/MaxEig; Props/C14Power.lean: pm_step, pm_done_iff, maxEig_passes, "
             "pm_nondegenerate, pm_estimate_le_lmax = the estimate UNDER-estimates every Rayleigh bound from the 2nd update on, "
             "pm_estimate_mono, pm_estimate_rayleigh_sandwich, maxeig_default_alpha_gap: alpha = 1/max_eig >= 1/L) with its own "
             "correspondence stream `power` (real PowerMethod stepped / MaxEig run vs the generated step over rationals).",
        note="Trusted: Lean kernel; translator gen_c14 (its reading of linop/prox constructors: Identity, Multiply(shape, scalar), "
             "Vstack, .H, .N, operator +,*; Prox.__call__ of L2Reg/Conj/Stack transcribed in Model/C14Base.lean — the prox classes are "
             "C11's subject); NOT proved: convergence of the PDHG / ADMM solver classes to their fixed points (CG and GradientMethod "
             "routes are joined end to end with C12/C13 in exact arithmetic; the PDHG route only in part: lamda = 0 without G and "
             "the set-up with G are not covered), the semi-definite consistent CG case (characterised only), floating point; the "
             "power method UNDER-estimates max_eig (proved), so alpha*lambda_max can exceed 1 (observed up to 1 + 1.5e-2; no "
             "objective increase ever observed - reported as an observation); the executable model and driver use real rational "
             "data (complex data on the real code is exercised by the search oracle). The objective-gap oracle treats a "
             "still-shrinking gap as inconclusive (no alarm).",
        technique="Lean 4 proof (normal equations, conjugates, KKT fixed points, step conditions, real and complex data; end-to-end joins with the CG and proximal-gradient theorems; power method) about translator-generated set-ups + step-by-step differential correspondence",
        design="DESIGN.md §3 C14, §9"),
    "C08": dict(
        text="Lean 4 theorems about what the translator extracts from sigpy/conv.py and sigpy/linop.py on every run. "
             "Gen/ConvFormulas.lean (output length per mode, the valid-mode admission test, the adjoint buffer lengths, which "
             "correlate mode each adjoint branch picks): conv_out_len_full / _valid / _valid_any / _any (p is exactly the number of "
             "samples 0, s, 2s, ... below scipy's m+n-1 resp. |m-n|+1, for all m, n, s >= 1 and either size order), admit_iff / "
             "admit_cases, adj_buf_len, data/filt_adj_shift(_nd) (with the code's mode choice the correlate shift equals the "
             "convolution offset, both modes, both size orders, per axis with the global all() decision). Gen/ConvWiring.lean (the "
             "three `for k in range(B): for j in range(c_o): for i in range(c_i):` nests of _convolve / _convolve_data_adjoint / "
             "_convolve_filter_adjoint: loop ranges, the slice accumulated into, `+=` vs `=`, the scipy call, its operands and mode "
             "argument, `[slc]` on the result, the statement `output_kj[slc] = output[k, j]` with its enclosing loops and its "
             "position before the use, the normalised layouts, np.zeros vs np.empty and the array whose dtype each buffer is "
             "allocated with): wiring_flags / wiring_loops (decision tables), conv_wiring / data_adj_wiring / filt_adj_wiring "
             "(after the nests output[b,o] = sum_c K(data[b,c], filt[o,c]), data[b,c] = sum_o K(stuffed output[b,o], filt[o,c]), "
             "filt[o,c] = sum_b K(stuffed output[b,o], data[b,c])). Over any commutative *-ring: conv1_entries, data/filt_adj_entries, "
             "data_adjoint / filter_adjoint (1-D), _mc (1-D batch and channels, generated wiring), _2d, adjoint_nd + mkAxes_ok(_admitted) "
             "(any D by recursion over the axes), data_adjoint_nd_mc / filter_adjoint_nd_mc and adjoint_nd_mc_code: the full "
             "statement <conv(d,f), y> = <d, adj_d(y,f)> = <f, adj_f(y,d)> for any D with batch and channel mixing, all strides, on "
             "the whole admitted domain (full; valid with data >= filter on every axis or shorter on every axis), about the "
             "generated wiring + generated formulas; gi_model_is_star_ring. dtype_rule / complex_output_exact: every adjoint buffer "
             "has the dtype of the output-side array, so no dtype combination drops an imaginary part and the rejected ones are "
             "exactly those where numpy's in-place add would cast complex into real. Gen/ConvLinops.lean (constructors, _apply, "
             "_adjoint_linop of ConvolveData / ConvolveDataAdjoint / ConvolveFilter / ConvolveFilterAdjoint): "
             "linop_adjoint_args_agree (same array, mode, strides, multi_channel; own shape argument; swapped oshape/ishape; right "
             "conv function) and linop_double_adjoint. Gen/ConvParams.lean (D, the slices for m, n, b and the indices of the channel "
             "check, c_i, c_o in _get_convolve_params): split_mc / split_sc (data_shape = b + (c_i,) + m and filt_shape = (c_o, c_i) + n "
             "are split into exactly b, m, n, c_i, c_o; ValueError iff the channel counts differ). Deepened (Props/C08Flat.lean): "
             "the translator also emits the strides default and length check, the guard table of _get_convolve_params (every `raise` "
             "in source order with its exception class), every reshape target of the three functions (normalisation and the final "
             "reshape per multi_channel branch) and the shape arguments of their _get_convolve_params calls, and the model consumes "
             "them (guard_table, strides_spec, getParams_eq and the converse splitShapes_inv / getParams_inv: a call gets past "
             "_get_convolve_params iff its shapes are b + (c_i,) + m and (c_o, c_i) + n with len(m) = len(n) >= 1, strides None or of "
             "length D, mode full or an admitted valid size combination). convolve_eq_index / data_adjoint_eq_index / "
             "filter_adjoint_eq_index: the flat-array functions the driver runs and the correspondence compares with sigpy (numpy "
             "reshape / zeros / broadcast / slicing contracts, zero-extended reads, flat loops) EQUAL the index-level definitions "
             "convMCD / dataAdjMCD / filtAdjMCD entry by entry with exactly the advertised / requested shape, for every number of "
             "axes, batch shape, channel configuration, mode, size order and strides; flat_data_adjoint_identity / "
             "flat_filter_adjoint_identity: hence <convolve(d,f), y> = <d, adj_d(y,f)> = <f, adj_f(y,d)> for the arrays those very "
             "functions return. convolve_shape_or_raise / adjoint_shape_or_raise: for ALL argument combinations (ranks, channel "
             "counts, strides argument, mode string, filter longer than data, dtypes, shape of the output-side array) the functions "
             "return an array of exactly the computed shape b + (c_o,) + p / the requested data_shape / filt_shape with that many "
             "elements, or an error - and an array is returned only on an admitted call; convolve_raises_iff / adjoint_raises_iff: the "
             "calls that raise are exactly the non-admitted ones. The four Linop classes are interpreted "
             "from their generated descriptions (linopShapes / linopAdjoint / linopApply run by the driver): linop_H_wiring (.H is "
             "the partner class with the same arguments and swapped shapes, for every mode / strides / multi_channel), "
             "linop_apply_wiring (_apply is the right conv function with the stored arguments), linop_data_pairing / "
             "linop_filter_pairing (<A x, y> = <x, A.H y> for ConvolveData and ConvolveFilter through that wiring). "
             "Tie: translator (a construct outside its subset is a broken obligation) + "
             "exhaustive exact correspondence (D=1 all lengths 1-5 x strides x modes x channel configs x batch; D=2 grid; D=3,4 "
             "sampled; every layer the theorems are about incl. the D-dim batch/channel layer; functions and all Linop classes incl. "
             ".H of the adjoint classes; outputs or error kinds; mixed real/complex dtypes incl. which combinations raise TypeError).",
        note="Trusted: Lean kernel; translator gen_c08; scipy.signal.convolve/correlate index conventions (incl. the operand swap "
             "in valid mode) and numpy slicing/broadcast/reshape are hand-written contracts checked exactly against scipy; numpy's "
             "casting rules (silent complex->real on item assignment, TypeError on in-place add) are a hand-written contract "
             "validated by the mixed-dtype correspondence cases; Linop.__init__'s positive-shape check and Linop.apply's input / "
             "output shape checks are hand-written contracts. Validated by correspondence only: that numpy / scipy raise where "
             "the contracts say (reshape element count, broadcast, negative np.zeros extent, scipy's valid-mode size rule) - the "
             "theorems show these never fire on an admitted call; the exception class of rank mismatches (the model only says "
             "`raises`); zero-size arrays and non-positive strides are outside the model's domain (`err domain`, never requested).",
        technique="Lean 4 proof over translator-generated formulas/branches/loop wiring/dtype flags/Linop argument tables + exhaustive exact differential correspondence",
        design="DESIGN.md §3 C08, §9"),
    "C02": dict(
        text="Lean 4 theorems: an effect/alias IR with a concrete store semantics and an abstract points-to analysis "
             "(Model/C02.lean); analyze_sound (every concrete execution stays inside the analysis result, by induction over the "
             "program with checked post-fixpoints for loops) and noMutation_sound (if the checker accepts a program then after every "
             "execution every buffer that existed at entry - parameters, captured arrays - has its entry contents), ret_sound / "
             "ret_fresh_disjoint (alias claims of results); 103 kernel-checked obligations `noMutation prog_f = true` (by decide) on "
             "IR programs the translator regenerates every run from every Linop._apply / Linop.apply / Prox._prox / Prox.__call__ and "
             "the public functions of util, fourier, interp, conv, block, wavelet, thresh, mri.util and their helpers "
             "(Gen/Effects.lean, Gen/EffectsOk.lean), with summ_f_eq tying call-site summaries to callee analyses; denote_linear "
             "(any entry-list map is additive and homogeneous), tree_linear (by structural induction over the C01 expression "
             "language - 19 leaf classes + Compose/Add/Conj/Hstack/Vstack/Diag - every tree satisfies A(a x + y) = a A x + A y over "
             "any commutative star ring incl. C with complex a), tree_history_deterministic, conj_sandwich_linear / conj_half_antilinear (Conj is C-linear; "
             "dropping one conjugate is not); history_determinism (an _apply that reads only constructor parameters and writes nothing "
             "gives, in every interleaving of apply/.H/.N, the output a fresh object gives). Round-4 additions: writesOnly / "
             "writesOnly_sound (the checker for functions with an in/out argument or object state: every entry buffer not owned by an "
             "allowed origin keeps its contents) and 24 more kernel-checked obligations for the APPS - the four LinearLeastSquares "
             "set-ups, their closures gradf / minL_x / minL_v (each closure is its own program: closure parameters = parameters, "
             "self.* and the enclosing method's parameters = captured, the enclosing body as a flow-insensitive prefix), objective, "
             "and in sigpy/mri/app.py _estimate_weights, the three recon constructors and their g closures, JsenseRecon "
             "_get_data/_get_vars/_get_alg(+closures)/_output, EspiritCalib __init__(+closures)/_output: they write only fresh arrays, "
             "the object itself and the solution / own work arrays (self.x; mps_ker, img_ker; mps; the **kwargs dictionary carrying x), "
             "never y, z, mps, weights, coord or arrays captured by A / G / proxg / P. Props/C02Leaves.lean: act_linear / "
             "tree_linear_no_leaf_hypothesis (EVERY tree of the C01 language - the 19 exact classes incl. MatMul/RightMatMul and the "
             "ext leaves FFT/IFFT (C05 table), Convolve* (C08 model), Wavelet (C10 model) - is additive and homogeneous over C, no "
             "hypothesis on leaves or well-formedness), fft_leaf_linear / conv_leaf_linear / wave_leaf_linear / matmul_leaf_linear "
             "(the leaves C01's builders produce denote operators with the class's shapes), conv1At_linear_data / _filter (the C08 "
             "function model itself is linear), tree_denotation_function and algebra_history_deterministic / _equal_objects (a pool of "
             "live operator objects under a history of operator algebra S = A + B, T = S + C, S * A, Conj, stacks, each re-using "
             "existing objects, interleaved with applications: apply i x always returns the action of the tree object i was built "
             "as). Tie: translator every run + runtime "
             "stream on the real code validating the numpy view/copy table (byte snapshots of all arguments and captured arrays, "
             "np.shares_memory vs the IR's alias claims, repeated calls, exact linearity on Gaussian integers) + the history stream "
             "check_hist: tree shapes from the C01 generator, pools of live objects combined by +, -, *, Add, Compose, scalars, Conj, "
             "Hstack/Vstack/Diag, .H/.N re-using live operands; every object applied to complex128/float64/float32/int64/complex64 "
             "inputs at construction, in between and at the end; outputs compared bitwise with the object's first output, with the "
             "combination of its parts' outputs (1e4 x eps of the parts' dtype), with an equal object built from scratch, and with "
             "M x for the matrix of the Lean denotation of its tree (driver `C02 mats`, obligation correspondence:C02.tree-denotation).",
        note="Trusted: Lean kernel; translator gen_c02 and its numpy view/copy table (validated by the runtime stream, not proved); "
             "call = any behaviour within the callee's summary (assume-guarantee, no interprocedural semantics); stores through a "
             "subscript are value copies unless the base is a known container; for the apps additionally: ALG_WRITES (which "
             "constructor arguments ConjugateGradient / GradientMethod / PrimalDualHybridGradient / ADMM / PowerMethod / "
             "LinearLeastSquares write in their later updates: the in/out x, u, v only - the update rules are C12-C14's models), "
             "Linop / Prox constructors only store references, `op += ...` on a Linop is a rebinding (no in-place dunder in linop.py: "
             "checked syntactically every run, else broken obligation), self.attr = v is a weak update; needsRuntime: "
             "util.monte_carlo_sure (user callback), AllReduce (MPI), LinearLeastSquares.__init__/_summarize/_output and App.run "
             "(no array code of their own; x allocation), JsenseRecon.__init__ (calls its three set-up methods, each proved), z or P "
             "passed to a recon app inside **kwargs (the dictionary is one origin), L2ConstrainedMinimization / MaxEig set-ups; in "
             "place by contract: util.axpy, util.xpay, fourier._apodize, Alg classes; CuPy arms skipped; linearity/determinism of "
             "NUFFT / Kaiser-Bessel paths and N-d / complex wavelets are runtime only; a LEAF class that rejects real-typed arrays "
             "(conv.py with a complex filter on real data raises a casting error on the unchanged tree) is not judged, a COMBINATOR "
             "must accept a real / integer array whenever the combination of its parts' outputs is defined "
             "(complex64 linearity tolerance 2e-4 = 1e3 x observed rounding; complex128 1e-10).",
        technique="Lean 4 proof (sound no-mutation analysis, kernel-evaluated per function on translator-generated IR) + runtime validation",
        design="DESIGN.md §3 C02, §9"),
    "C12": dict(
        text="Lean 4 theorems about the ConjugateGradient machine init/update_/update/done that the translator "
             "(harness/translate/gen_c12.py, a statement-by-statement symbolic execution of "
             "ConjugateGradient.__init__/_update/_done, Alg.__init__ through super().__init__ and Alg.update: every assignment one "
             "`let`, every `if` one `if`/`match`, arrays tracked as objects so in-place updates and shared names are exact) "
             "regenerates into Gen/C12.lean on every run, generic over a record of vector-space operations (Model/C12Base.lean; "
             "executed over Gaussian rationals by the driver, reasoned about in an RCLike inner-product space); Model/C12.lean's "
             "definitions ARE the generated ones (model_is_generated, rfl). For Hermitian positive-definite A and optional Hermitian "
             "PD preconditioner P, by induction on the number of updates: cg_residual (r_k = b - A x_k while residual updates are "
             "performed), cg_orth / cg_conj (full orthogonality and conjugacy), cg_krylov / cg_krylov_eq (x_k - x_0 in K_k(PA, P "
             "r_0), directions span it), cg_optimal and cg_optimal_last (A-norm optimal over x_0 + K_k, incl. the final iterate "
             "where the code skips the residual update), cg_monotone, cg_finite (r_n = 0 in dimension n), cg_breakdown / npd_sticky "
             "/ cg_breakdown_converged (pAp <= 0: state unchanged, flag set and sticky, done), cg_early_stop_fixed, "
             "alias_branch_unreachable (whenever self.p is or may be the array self.r - no private copy, max_iter <= 1 - the "
             "generated condition under which _update updates r or p in place is false), x_is_callers_array (self.x is the caller's "
             "array and is never rebound), cg_x_maxiter_irrelevant, cg_real_inner, resid2_eq_rzold, iter_counts_updates, update_eq. "
             "Tie: translator (any statement, operator, comparison, call or attribute outside the subset is a broken obligation) + "
             "the REAL class executed over exact Gaussian rationals (dtype=object arrays of an exact scalar class) and compared "
             "field by field as equal fractions with the Lean driver after __init__ and after every update (PD / singular / "
             "indefinite matrices, n = 1..8, with and without P, A as Linop and as function, max_iter in {0,1,2,n,n+1,n+2}), plus a "
             "float run at 1e-9.",
        note="Trusted: Lean kernel; translator gen_c12 (python ast -> Lean; its reading of util.axpy / util.xpay / xp.real(xp.vdot) "
             "/ .copy() / .item() as the Ops record's operations and of numpy arrays as objects is validated by the exact "
             "correspondence, not proved); the driver's division-by-zero pre-check is hand-written (tied by the correspondence); "
             "IEEE rounding not modelled (float Krylov-optimality demanded at 1e-4 for P none/diagonal only; dense P in float drifts "
             "up to 5e-4 and is judged on the exact run).",
        technique="Lean 4 proof (CG invariants and Krylov optimality by induction) about translator-generated definitions + exact-rational execution of the real class",
        design="DESIGN.md §3 C12, §9"),
    "C13": dict(
        text="Lean 4 theorems about the update formulas the translator extracts from GradientMethod._update and "
             "PrimalDualHybridGradient._update (Gen/C13.lean, one generic model executed over rationals and reasoned about over real "
             "inner-product spaces, prox given by its variational characterisation, f convex with the descent lemma): "
             "gmStep_x_isProx, ista_step_ineq, ista_descent (F never increases for alpha <= 1/L), ista_rate "
             "(F(x_k)-F(w) <= ||x_0-w||^2/(2 alpha k)), t_rule_ok / t_rule_growth, fista_lyapunov, fista_invariants, fista_rate (full "
             "rate 2||x_0-w||^2/(alpha (k+2)^2)), pdhg_fixed_point_iff_saddle (any tau, sigma > 0, any gamma), pdhg_fejer and "
             "pdhg_fejer_monotone (constant scalar steps, theta = 1, tau sigma ||A||^2 <= 1: the coupled distance on the pair the "
             "algorithm couples never increases), pdhg_accel_steps_primal/dual and pdhg_accel_run_primal (theta = 1/sqrt(1+2 gamma "
             "step), tau sigma invariant, min tracked along the whole run). Tie: translator (statement census, order and branch "
             "conditions pinned) + the REAL classes stepped over exact rationals (sqrt values logged and checked at 1e-15) and "
             "compared after every update, float stream for l1, identity of the caller's arrays."
             ' Deepened: array-valued (diagonal) steps - IsProxW (prox in the T^-1-weighted inner product = what an elementwise prox with an array step computes), pdhg_fixed_point_iff_saddle_diag, pdhg_fejer_diag / _monotone / pdhg_fejer_run_diag under MetricPSD (2|<Ax,u>| <= <T^-1 x,x> + <Sigma^-1 u,u>; = tau sigma ||A||^2 <= 1 for scalars: metricPSD_scalar), metricPSD_pock_chambolle (the condition holds for the diagonal-preconditioning steps the harness generates), pdhg_residual_rate_partial (D_N + sum R_k <= D_0, some R_j <= D_0/N: asymptotic regularity at rate 1/N, NOT convergence to the minimiser).'
             " Deepened (round 3, Props/C13Conv.lean, Props/C13Accel.lean, Lemmas/C13Conv.lean): CONVERGENCE OF THE ITERATES in finite dimension - ista_step_nonexpansive (prox 1-Lipschitz from its variational characterisation: isProx_nonexpansive; gradient step nonexpansive by Baillon-Haddad: grad_cocoercive), ista_fixed_iff_minimiser, ista_asymptotic_regularity (sum ||x_{k+1}-x_k||^2 <= 2 alpha (F(x_0)-F*)), ista_iterates_converge (alpha <= 1/L, a minimiser exists => x_k -> a minimiser); pdhg_iterates_converge (+ _scalar): constant positive scalar or array steps, theta = 1, MetricPSD (tau sigma ||A||^2 <= 1, EQUALITY ALLOWED - the Opial argument opial_core is run in the possibly degenerate metric of the steps: cpMap_lipschitz_metric shows one sweep depends on its argument only through M = [[T^-1,-A^H],[-A,Sigma^-1]], metric_range_le), a saddle point exists => (x_k, u_k) -> a saddle point; ERGODIC GAP pdhg_gap_step_diag / pdhg_ergodic_gap: L(X_N, v) - L(w, U_N) <= D_0(w,v)/(2N) for every (w, v), X_N = mean(x_1..x_N), U_N = mean(u_2..u_{N+1}) (Chambolle-Pock 2011 Thm 1 in the pairing the code couples); ACCELERATED RATE (gamma_primal = gamma > 0, g gamma-strongly convex in Mathlib's StrongConvexOn, scalar steps, tau_0 sigma_0 ||A||^2 <= 1): pdhg_accel_lyapunov (one update does not increase Psi = (|x-x*|^2/(2 tau) + |u-u*|^2/(2 sigma))/tau + |x_ext-x|^2/(2 tau^2) + <A(x_ext-x),u-u*>/tau), pdhg_accel_energy_run, pdhg_accel_tau_decay (1/tau_k >= 1/tau_0 + k gamma/(1+gamma tau_0)), pdhg_accel_dist_tau, pdhg_accel_rate (|x_N-x*|^2 <= (|x_0-x*|^2/tau_0^2 + |u_0-u*|^2/(tau_0 sigma_0)) / (1/tau_0 + N gamma/(1+gamma tau_0))^2 = O(1/N^2), CP Thm 2). pdThetaP_eq / pdThetaD_eq / gmT_real hold up to ring normalisation of the radicand, so a commuted sum in the source does not alarm. Dual acceleration (gamma_dual = gamma > 0, f* gamma-strongly convex; the code rescales sigma *= theta, tau /= theta and still extrapolates the primal variable): pdhg_accel_lyapunov_dual (Psi_d = (|x-x*|^2/(2 tau) + |u-u*|^2/(2 sigma))/sigma + <A(x_ext-x),u-u*>/sigma + |x_ext-x|^2/(2 tau sigma) never increases, tau sigma ||A||^2 <= 1), pdhg_accel_run_dual, pdhg_accel_energy_run_dual, pdhg_accel_sigma_decay, pdhg_accel_rate_dual ((1 - tau_0 sigma_0 ||A||^2) |u_N-u*|^2 <= (|u_0-u*|^2/sigma_0^2 + |x_0-x*|^2/(tau_0 sigma_0)) / (1/sigma_0 + N gamma/(1+gamma sigma_0))^2: O(1/N^2) under the STRICT step condition).",
        note="Trusted: Lean kernel; translator gen_c13; NOT proved: the accelerated rate for gamma_dual > 0 at the boundary tau_0 sigma_0 ||A||^2 = 1 (proved under the strict inequality) and for array-valued steps with acceleration (the code rescales with min|tau| / min|sigma|), convergence of the FISTA iterates (only the objective rate), infinite dimension (weak convergence) - these are decided by the search oracle on planted-solution instances (incl. Nesterov's tridiagonal); __init__ values, in-place updates, resid and floating point are tied by correspondence only.",
        technique="Lean 4 proof (ISTA/FISTA rates, convergence of the ISTA and PDHG iterates, PDHG saddle fixed points, Fejer monotonicity, ergodic gap, accelerated O(1/N^2) rate) over translator-generated updates",
        design="DESIGN.md §3 C13, §9"),
    "C15": dict(
        text="Lean 4 theorems about definitions the translator regenerates from alg.py / app.py (Gen/AlgDone.lean: Alg counter init "
             "and increment, per-class self-increments, every _done expression of the 11 Alg classes, updates per App.run pass): "
             "loop_bound and loop_bound_<Class> (from iter = 0 the canonical loop performs at most max_iter updates and iter equals "
             "the update count), ctr_iterate, iter_counts_updates, self_incr_zero, app_one_update_per_pass; early_stop_fixed_gm / "
             "_gm_accel / _pdhg / _newton and C12.cg_early_stop_fixed (with tol = 0, done() before max_iter implies the next update "
             "leaves the solution unchanged - for the repaired residuals), pdhg_primal_only_not_fixed / gm_accel_x_only_not_fixed "
             "(exact rational witnesses that the pinned residuals did NOT have the property); power_monotone, power_normalised, "
             "power_le_bound. Tie: translator + counter/done traces of 9 classes and App.run under random done()/update() "
             "interleavings up to max_iter+2, PDHG / GradientMethod stepped against the Lean transcription."
             " Deepened: the PDHG residual formulas and Newton's residual are translator-generated (Gen/C15Resid.lean), C15's PDHG step is C13's generated step; early_stop_fixed_pdhg_general (any gamma_primal, gamma_dual, theta, scalar or array steps: resid <= 0 => saddle point => the next update with the rescaled steps changes neither x nor u), early_stop_fixed_newton_ls (backtracking line search), pdRescale_steps_pos.",
        note='Trusted: Lean kernel; translator gen_c15; SDMM has no run-time traces; the statement order of NewtonsMethod._update and of GradientMethod is transcribed by hand in C15 (tied by the step stream); for PDHG with gamma > 0 the extra-update comparison uses 1e-10 relative (a float fixed point of the old steps is reproduced by the rescaled steps to 1 ulp; in exact arithmetic it is early_stop_fixed_pdhg_general); power_le_bound takes an operator bound L (lambda_max = ||A|| is checked numerically); the extra-update comparison for GerchbergSaxton uses 1e-10 (its least-squares re-solve reproduces the fixed point to 1 ulp only).',
        technique="Lean 4 proof (loop bound over translator-generated done/counter logic, fixed-point theorems) + trace correspondence",
        design="DESIGN.md §3 C15, §9"),
    "C18": dict(
        text="Lean 4 theorems about definitions the translator regenerates from mri/samp.py (Gen/Samp.lean: calibration slice "
             "bounds, radius fields, every comparison/update/break of the bisection, crop test, accept test, mask writes, structural "
             "flags such as get_state/set_state placement and '=' vs '+='): structure_ok, calib_block_bounds / calib_block_size, "
             "mask_binary / mask_monotone / calib_ones / active_list_inv (every reachable sampler state, any radii and draw stream), "
             "crop_keeps_calib (c + 2 <= n), crop_loses_calib_iff (exact class of the known finding) with crop_counterexample_16_15, "
             "crop_outside_zero, crop_binary, returned_within_tol (a returned mask meets |size/sum - accel| < tol, for any sampler "
             "and midpoint function), raise_iff, never_unbound, bisection_direction, stall_exits / interval_shrinks / terminates "
             "(over any finite grid containing the midpoints the repaired loop terminates), deterministic, global_rng_frame(_private). "
             "Tie: translator + exact streams: real numba calibration fill vs generated bounds, _poisson.py_func on scripted draws "
             "vs the Lean sampler machine, bisection traces of real poisson calls vs the Lean loop, r < 1 field vs exact r^2 < 1.",
        note="KNOWN FINDING C18:crop_corner:calib-touches-edge (recorded, not repaired). Trusted: Lean kernel; translator gen_c18; NOT "
             "proved: that float64 (a+b)/2 lies in [a, b] (IEEE; checked on every real trace), numba's private RNG bit-for-bit, float "
             "geometry of candidate points; c = n excluded (r is 0/0); watchdog turns a hang into a violation, slow-but-progressing "
             "calls are inconclusive.",
        technique="Lean 4 proof (sampler and bisection state machines over translator-generated definitions) + trace correspondence",
        design="DESIGN.md §3 C18, §9"),
    "C16": dict(
        text="The Sense FACTORY itself is translator-generated: Gen/SenseTree.lean (`senseBody`/`senseGen`) is the symbolic "
             "execution of the statements of mri/linop.py Sense (tseg = comm = None: ishape/img_ndim handling, coil_batch_size "
             "default, batching branch with its Vstack, comprehension and RECURSIVE call — parameters not forwarded take their "
             "declared defaults —, S = Multiply(ishape, mps), FFT(S.oshape, axes) | NUFFT(S.oshape, coord) | NUFFT(S.oshape, "
             "-coord).H, A = F*S, P = Multiply(F.oshape, weights**e), A = P*A) into a term over the operator vocabulary of "
             "Model/C16Base.lean; the driver runs that term, and sense_gen_eq proves it equal to the normal form [P,] F, S / "
             "Vstack(axis 0) of per-batch [P_c,] F, S_c (same Fourier operator and options in every batch, weights sliced iff the "
             "array is per-coil under numpy broadcasting, inner calls never batch again) so that every theorem below is about what "
             "the source builds; fft_axes_per_coil / fkindOf_perCoil: the generated FFT axes are exactly the image axes (never the "
             "coil axis) and the Fourier leaf is FFT for coord None, NUFFT(coord) otherwise, NUFFT(-coord).H with transp_nufft. "
             "Gen/ReconSetup.lean is generated from the statements of _estimate_weights and the three recon __init__s (+ the "
             "defaults of LinearLeastSquares.__init__): which weights reach linop.Sense, y pre-multiplied by weights**e, what is "
             "passed as lamda / proxg / G; Props/C16Recon.lean: senserecon_setup / l1waveletrecon_setup / tvrecon_setup (A = P_w F S "
             "with the documented weights, 1/2||A x - y'||^2 = 1/2||P_w(F S x - y)||^2 for every weights/coord combination, lamda "
             "routed as lambda/2||x||^2 only by SenseRecon, as the L1 threshold by the other two, G = FiniteDifference only for "
             "TV), senserecon_cg_minimises (C14's generated cgArgs system of that problem is solved by x iff x minimises the "
             "documented 1/2||P F S x - y||^2 + lambda/2||x||^2; via C14 cg_normal_eq), tvrecon_kkt_minimises (KKT points = fixed "
             "points of C14's generated PDHG/ADMM set-ups minimise 1/2||P F S x - y||^2 + g(G x); via C14 kkt_is_minimiser), "
             "unitary_transform_prox (UnitaryTransform(prox_g, W) is the prox of g o W for unitary W: the property's proviso for "
             "L1WaveletRecon). Further "
             "Lean 4 theorems about definitions the translator regenerates from mri/linop.py Sense and the recon classes of mri/app.py "
             "(Gen/SenseFormulas.lean: batching guard, num_coil_batches, batch range, Vstack axis, slice bounds of mps[...] and "
             "weights[...], per-coil test, keywords forwarded to the batches, FFT axes, exponent of weights**0.5, _estimate_weights "
             "rule, per recon class the y*weights**e exponent and prox/G construction): batch_slices_partition / "
             "sense_batch_partition (the slices [c b, (c+1) b) for c < ceil(n/b) concatenate to 0..n-1 in order for ALL n and b >= 1), "
             "sense_batches_nonempty, sense_denote (the unbatched operator is sqrt(w) * F(mps_c * x) for an abstract linear F), "
             "sense_denote_index (out[c,k] = sqrt(w)[c,k] sum_r F[k,r] mps[c,r] x[r]), "
             "batched_apply, sense_batch_invariant (forward result identical for every batch size with no / shared / per-coil "
             "sliced weights); the adjoint Op.adj of the model (the definition the driver runs against the real A.H): "
             "sense_adjoint_denote / sense_adjoint_index (A^H y = sum_c conj(mps_c) F^H(conj sqrt(w_c) y_c)), vstack_adjoint "
             "(Vstack.H = Hstack: split rows by the batches' coil counts, apply batch adjoints, sum; abstract F^H), "
             "sense_adjoint_batch_invariant (adjoint identical for EVERY batch size b >= 1, no / shared / per-coil sliced "
             "weights), sense_dot_test_abstract (<A x, y> = <x, A^H y> from <F u, v> = <u, F^H v> for an abstract F, F^H), "
             "matrix_adjoint_identity, sense_dot_test / sense_dot_test_complex (the adjoint identity for the model over any "
             "commutative *-ring / C, unbatched and every batch size); weights_exponent_is_half, weights_sliced_with_coils, batch_forwards_all, recon_setup_sense / "
             "_l1wavelet / _tv, recon_objective (sum ||sqrt(w) a - sqrt(w) y||^2 = sum w ||a - y||^2), estimated_weights_sqrt, "
             "consistent_data_recovers (A injective, y = A x0, lamda = 0: x minimises iff x = x0). Tie: translator + the real "
             "operator's A(x) and A.H(y) vs the exact Gaussian-rational model with F supplied as exact fractions of numpy's FFT / "
             "single-coil nufft of basis images (1e-9), reified operator trees, recon set-ups.",
        note="Trusted: Lean kernel; translator gen_c16; `Valid` (hypothesis of sense_gen_eq and of every operator theorem): "
             "ishape is None or mps.shape[1:], and the model reads the weights array as per-coil exactly when numpy broadcasting "
             "does (ndim = k-space ndim + 1 and shape[0] = coils) — the driver classifies the request by that documented rule, the "
             "generated factory applies the source's own test; hypotheses of the adjoint theorems: the arrays are rectangular (every "
             "coil map has R entries, per-coil weights one row per coil: enforced by the driver's size checks); NOT proved: "
             "that the real A / A.H are the model's Op.apply / Op.adj (compared on every run for every batch size at 1e-9), "
             "that FFT/NUFFT equal the matrix F, that the solvers reach their fixed points (objective "
             "gap vs dense reference), that P_w F S of Props/C16Recon (linear maps over real inner-product spaces) is the list "
             "model's denotation (same formula, not formally connected), tseg and comm are oracle/correspondence only; "
             "ConvSense/ConvImage are outside the property text and not modelled; L1WaveletRecon only under numerically verified "
             "unitarity of W.",
        technique="Lean 4 proof (batch partition, explicit encoding, recon objectives) over translator-generated set-up + correspondence",
        design="DESIGN.md §3 C16, §9"),
    "C17": dict(
        text="PARTIAL by nature (SVD / power-iteration numerics; recovery depends on smoothness). Lean 4 theorems over C about the "
             "post-processing the translator extracts from EspiritCalib (Gen/EspiritFormulas.lean: calib shape, block/stride "
             "arguments, reshape/transpose steps, threshold test, Gram scale, normalize power/axis/root, reference coil, crop "
             "comparison): normalize_eq, power_step_unit (unit l2 norm across coils, estimate ||Gx|| > 0), phase_ref / "
             "phase_ref_norm (coil 0 becomes |m0| >= 0 real, every modulus unchanged), espirit_keeps_iff (crop test is strictly >), "
             "crop_dichotomy (unit-norm with coil 0 = |m0|, or exactly 0), gram_symmetric / gram_psd, power_monotone / "
             "power_bounded (Cauchy-Schwarz), espirit_scale, calib_shape_steps, calib_index_map / _2d / _3d (entry (row-major "
             "block index, c kw^d + row-major kernel offset) reads calib[c, block + offset], no other entries, for ALL nc, cw, "
             "kw, through the generated loop nests via C09 a2b1_mem / a2b2_mem / a2b3_mem), eigenvalues <= 1: bessel_gram_le, "
             "gram_quadratic_le, eig_le_one_of_orthonormal_kernels, eigenvalue_le_one (abstract: orthonormal kernels v_k, a_k = "
             "T^dagger v_k, ||T x||^2 = kappa ||x||^2, c kappa <= 1 => ||G x|| <= ||x||, <G x, x> <= ||x||^2, |lambda| <= 1) and "
             "eig_le_one_espirit (E = C^{coils x kw^d}, a_k(q)[c] = sum_p v_k[c,p] eps_q(p), |eps|^2 <= 1/N, scale = generated "
             "espiritScale = N/kw^d). Tie: translator + real normalize / PowerMethod._update / _output on exact Pythagorean inputs vs the "
             "model (1e-12, zeros exactly), calibration matrix captured at the real svd call on labelled k-space compared exactly, "
             "and the hypotheses of eig_le_one_espirit on the real intermediates of every run (kept VH rows orthonormal, real AHA = "
             "espiritScale * sum_k a_k a_k^H with the explicit centred-DFT phases, N|eps|^2 <= 1, eigvalsh(AHA) <= 1; all at 1e-10).",
        note="Trusted: Lean kernel; translator gen_c17; eig <= 1 is a theorem only UNDER the hypotheses (numpy's svd returns "
             "orthonormal rows; sp.ifft of the centre-padded kernel is the centred orthonormal DFT) which are checked numerically, "
             "not proved; NOT theorems (search oracle only): the float power iteration's estimate, recovery of the true "
             "maps (1e-2 in the interior, restricted to settings where the unchanged code achieves it: calib_width 12, kernel_width "
             "4), SVD / power-iteration convergence; m0 = 0 voxels (0/0) excluded.",
        technique="Lean 4 proof (per-voxel post-processing algebra) over translator-generated formulas + correspondence + invariant oracle",
        design="DESIGN.md §3 C17, §9"),
}
NOT_YET = "check not built yet in this round (framework exists; see DESIGN.md §8 build order)"

props = [json.loads(l) for l in open(os.path.join(HERE, "properties.jsonl"))]
checks, na = [], []
for p in props:
    pid = p["id"]
    if pid in CLAIMED:
        c = CLAIMED[pid]
        checks.append(dict(
            property_id=pid,
            quick_cmd="./check %s --tier quick" % pid,
            thorough_cmd="./check %s --tier thorough" % pid,
            evidence_file="evidence/%s.json" % pid,
            replay_cmd_template="./check %s --replay {path}" % pid,
            engine="lean4+correspondence",
            level_claimed=dict(category="proof", text=c["text"], design_ref=c["design"]),
            level_note=c["note"],
            technique=c["technique"],
        ))
    else:
        na.append(dict(property_id=pid, reason=NOT_YET))
m = dict(
    version=1,
    setup_cmd="./check setup",
    hooks=dict(guard="SIGPY_VERIF", enable="no hooks: checks import /repo's working tree directly (PYTHONPATH) and "
                                           "regenerate the Lean model from its source",
               baseline_off_cmd=BASELINE, source_commits=[], add_only=True),
    engines=[dict(name="lean4+correspondence", path="lean/", serves_properties=sorted(CLAIMED),
                  kind_free_text="Lean 4.33 theorems about a model regenerated/tied to /repo; Python harness drives the "
                                 "compiled Lean driver and the real sigpy code on the same inputs")],
    checks=checks,
    notes="Entry point ./check Cxx --tier quick|thorough [--replay f]; exit 0 held, 1 violation, 2 infrastructure.",
    not_applicable=na,
)
json.dump(m, open(os.path.join(HERE, "MANIFEST.json"), "w"), indent=1)
print("claimed", sorted(CLAIMED), "not yet", len(na))
