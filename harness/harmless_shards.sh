#!/bin/bash
# harmless_shards.sh N — run harness/harmless_matrix.py over harmless/* in N private clones of /verif, merge into /verif/harmless/RESULTS.json/.md
N=${1:-3}
cd /verif
ids=($(ls harmless | grep -E '^C[0-9]+'))
for k in $(seq 0 $((N-1))); do
  (
    rm -rf /work/hm$k; git clone -q /verif /work/hm$k; cd /work/hm$k
    rm -f harmless/RESULTS.json
    ./check setup > setup.log 2>&1
    mine=(); i=0; for s in "${ids[@]}"; do if [ $((i % N)) -eq $k ]; then mine+=($s); fi; i=$((i+1)); done
    harness/harmless_matrix.py "${mine[@]}" > matrix.log 2>&1
  ) &
done
wait
/venv/bin/python - <<PY
import json, glob
res = {}
for f in sorted(glob.glob('/work/hm*/harmless/RESULTS.json')):
    for r in json.load(open(f)):
        res[r['id']] = r
json.dump([res[k] for k in sorted(res)], open('/verif/harmless/RESULTS.json', 'w'), indent=1)
lines = ["| change | property | kind | what | outcome | obligations that no longer check |", "|---|---|---|---|---|---|"]
for k in sorted(res):
    r = res[k]
    lines.append("| %s | %s | %s | %s | %s | %s |" % (k, r["property"], r.get("kind", ""), r.get("what", "")[:140].replace("|", "/"),
                 r.get("outcome", r.get("error", "?"))[:60], ", ".join(n.split(":", 1)[-1] for n in r.get("broken", [])[:5]) or "—"))
open('/verif/harmless/RESULTS.md', 'w').write("\n".join(lines) + "\n")
import collections
print(len(res), 'results merged', collections.Counter(r.get('outcome', 'error') for r in res.values()))
PY
