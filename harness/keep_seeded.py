#!/usr/bin/env python3
"""keep_seeded.py <mutant dir> <seeded id> <property> <caught-by text> — store a confirmed seeded change under /verif/seeded/<id>/"""
import json, os, shutil, sys
src, sid, prop, caught = sys.argv[1:5]
dst = os.path.join(os.path.dirname(os.path.dirname(os.path.abspath(__file__))), "seeded", sid)
os.makedirs(dst, exist_ok=True)
for f in ("patch.diff", "demo.py"):
    shutil.copy(os.path.join(src, f), os.path.join(dst, f))
meta = json.load(open(os.path.join(src, "meta.json")))
meta.update(property=prop, origin="independent sub-agent given only the property text and a scratch worktree",
            confirmed="demo.py exits 0 on the clean checkout and 1 with the patch; relevant test files pass with the patch "
                      "(checked by the sub-agent and re-checked with harness/runmutant.py)",
            ran="harness/runmutant.py seeded/%s %s  (scratch worktree of /repo HEAD + patch, SIGPY_REPO)" % (sid, prop),
            caught_by=caught)
json.dump(meta, open(os.path.join(dst, "meta.json"), "w"), indent=1)
print("kept", dst)
