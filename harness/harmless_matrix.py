#!/venv/bin/python
"""Run behaviour-preserving source changes (harmless/<id>/patch.diff, meta.json) against their property's
quick check and record whether the check stays quiet.

  harness/harmless_matrix.py [ids...]     -> harmless/RESULTS.json, harmless/RESULTS.md

A harmless rewrite may legitimately break a translate / theorem / correspondence obligation (the model is
regenerated from the source; see DESIGN §2): the check then searches the real code, finds no failing input
and reports `VIOLATION … no-failing-input-found`.  What must NEVER happen on a harmless change is a
VIOLATION *with* a failing input.  This matrix records which of the three outcomes each change produces:
  quiet            exit 0
  unproved         exit 1, every VIOLATION line ends in no-failing-input-found
  FALSE-ALARM      exit 1 with a concrete failing input (a defect of the machinery)
Never touches /repo's working tree; regenerates Gen/ for the clean tree at the end.
"""
import json
import os
import subprocess
import sys
import shutil

VERIF = os.path.dirname(os.path.dirname(os.path.abspath(__file__)))
HARM = os.path.join(VERIF, "harmless")
EV = "/tmp/harmrun/evidence_%d" % os.getpid()


def sh(cmd, **kw):
    return subprocess.run(cmd, stdout=subprocess.PIPE, stderr=subprocess.STDOUT, text=True, **kw)


def run_one(hid):
    d = os.path.join(HARM, hid)
    meta = json.load(open(os.path.join(d, "meta.json")))
    prop = meta["property"]
    wt = "/tmp/harmrun/%s_%d" % (hid, os.getpid())
    os.makedirs("/tmp/harmrun", exist_ok=True)
    sh(["git", "-C", "/repo", "worktree", "add", "--detach", wt, "HEAD"])
    res = dict(id=hid, property=prop, kind=meta.get("kind", ""), what=meta.get("what", ""))
    try:
        eq = os.path.join(d, "equiv.py")
        envq = dict(os.environ, PYTHONPATH=wt, OMP_NUM_THREADS="2", OPENBLAS_NUM_THREADS="2", NUMBA_NUM_THREADS="2")
        dig0 = sh(["/venv/bin/python", eq], env=envq, cwd=wt).stdout.strip().split("\n")[-1] if os.path.exists(eq) else None
        ap = sh(["git", "-C", wt, "apply", os.path.join(d, "patch.diff")])
        if ap.returncode != 0:
            res["error"] = "patch does not apply to /repo HEAD: " + ap.stdout[-300:]
            return res
        if dig0 is not None:
            # the change is behaviour-preserving only if its own equivalence program prints the same digest both ways
            dig1 = sh(["/venv/bin/python", eq], env=envq, cwd=wt).stdout.strip().split("\n")[-1]
            res["equiv_digest_equal"] = (dig0 == dig1 and len(dig0) >= 32)
            if not res["equiv_digest_equal"]:
                res["error"] = "equiv.py digests differ (clean %s, patched %s): not counted as harmless" % (dig0[:16], dig1[:16])
                return res
        shutil.rmtree(EV, ignore_errors=True)
        env2 = dict(os.environ, SIGPY_REPO=wt, VERIF_EVIDENCE_DIR=EV)
        r = sh([os.path.join(VERIF, "check"), prop, "--tier", "quick"], env=env2, cwd=VERIF)
        vl = [l for l in r.stdout.split("\n") if l.startswith("VIOLATION")]
        res.update(exit=r.returncode, violation_lines=vl[:4])
        try:
            ev = json.load(open(os.path.join(EV, prop + ".json")))
            cov = ev["coverage"]
            broken = [o for o in cov["obligation_list"] if not o["ok"]]
            res.update(obligations=cov["obligations"], discharged=cov["discharged"],
                       broken=[o["name"] for o in broken][:10], disagreements=cov["disagreements"])
        except Exception as e:  # noqa
            res["evidence_error"] = repr(e)
        if r.returncode == 0 and not vl:
            res["outcome"] = "quiet"
        elif vl and all("no-failing-input-found" in l for l in vl):
            res["outcome"] = "unproved"
        else:
            res["outcome"] = "FALSE-ALARM"
            res["tail"] = r.stdout[-1500:]
        return res
    finally:
        sh(["git", "-C", "/repo", "worktree", "remove", "--force", wt])


def main():
    ids = [a for a in sys.argv[1:] if not a.startswith("--")] or \
        sorted(x for x in os.listdir(HARM) if os.path.isdir(os.path.join(HARM, x)))
    path = os.path.join(HARM, "RESULTS.json")
    try:
        results = {r["id"]: r for r in json.load(open(path))}
    except Exception:  # noqa
        results = {}
    for hid in ids:
        print("==", hid, flush=True)
        r = run_one(hid)
        results[hid] = r
        print("   %s exit=%s broken=%s disagreements=%s %s" % (r.get("outcome"), r.get("exit"), r.get("broken"),
                                                            r.get("disagreements"), r.get("error", "")), flush=True)
        json.dump([results[k] for k in sorted(results)], open(path, "w"), indent=1)
    sh([os.path.join(VERIF, "check"), "setup"], cwd=VERIF)
    lines = ["| change | property | kind | what | outcome | obligations that no longer check |", "|---|---|---|---|---|---|"]
    for k in sorted(results):
        r = results[k]
        lines.append("| %s | %s | %s | %s | %s | %s |" % (
            k, r["property"], r.get("kind", ""), r.get("what", "")[:140].replace("|", "/"),
            r.get("outcome", r.get("error", "?"))[:60],
            ", ".join(n.split(":", 1)[-1] for n in r.get("broken", [])[:5]) or "—"))
    open(os.path.join(HARM, "RESULTS.md"), "w").write("\n".join(lines) + "\n")
    print("wrote", path)


if __name__ == "__main__":
    sys.exit(main())
