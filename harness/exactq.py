"""Exact scalars for running the REAL sigpy solver classes over Q(i).

`QI` is a Gaussian rational (element type of dtype=object numpy arrays), `QR` an exact real scalar
(what `xp.real(xp.vdot(a, b))` returns for such arrays: it has `.item()` like a numpy scalar).
numpy dispatches `+ - * /`, `conjugate`, `real`, `vdot`, `matmul` on object arrays to these methods,
so `sigpy.alg.ConjugateGradient` runs unmodified and every attribute is an exact fraction.
"""
from fractions import Fraction

import numpy as np


def _fr(v):
    if isinstance(v, Fraction):
        return v
    if isinstance(v, (int, np.integer)):
        return Fraction(int(v))
    if isinstance(v, (float, np.floating)):
        return Fraction(float(v))  # exact (dyadic)
    raise TypeError(type(v))


class QR:
    """exact real scalar"""
    __slots__ = ("v",)

    def __init__(self, v=0):
        self.v = v.v if isinstance(v, QR) else _fr(v)

    def item(self):
        return self.v

    @property
    def real(self):
        return self

    @property
    def imag(self):
        return QR(0)

    def conjugate(self):
        return self

    @staticmethod
    def _c(o):
        if isinstance(o, QR):
            return o.v
        if isinstance(o, (int, Fraction, np.integer)):
            return _fr(o)
        return None

    def __add__(self, o):
        c = self._c(o)
        if c is not None:
            return QR(self.v + c)
        if isinstance(o, QI):
            return QI(self.v + o.re, o.im)
        return NotImplemented
    __radd__ = __add__

    def __sub__(self, o):
        c = self._c(o)
        if c is not None:
            return QR(self.v - c)
        if isinstance(o, QI):
            return QI(self.v - o.re, -o.im)
        return NotImplemented

    def __rsub__(self, o):
        c = self._c(o)
        if c is not None:
            return QR(c - self.v)
        return NotImplemented

    def __mul__(self, o):
        c = self._c(o)
        if c is not None:
            return QR(self.v * c)
        if isinstance(o, QI):
            return QI(self.v * o.re, self.v * o.im)
        return NotImplemented
    __rmul__ = __mul__

    def __truediv__(self, o):
        c = self._c(o)
        if c is not None:
            return QR(self.v / c)
        return NotImplemented

    def __rtruediv__(self, o):
        c = self._c(o)
        if c is not None:
            return QR(c / self.v)
        return NotImplemented

    def __neg__(self):
        return QR(-self.v)

    def __pow__(self, e):
        return self.v ** e

    def __float__(self):
        return float(self.v)

    def _cmp(self, o):
        c = self._c(o)
        if c is None:
            c = _fr(o)
        return c

    def __le__(self, o):
        return self.v <= self._cmp(o)

    def __lt__(self, o):
        return self.v < self._cmp(o)

    def __ge__(self, o):
        return self.v >= self._cmp(o)

    def __gt__(self, o):
        return self.v > self._cmp(o)

    def __eq__(self, o):
        c = self._c(o)
        return c is not None and self.v == c

    def __hash__(self):
        return hash(self.v)

    def __repr__(self):
        return "QR(%s)" % self.v


class QI:
    """Gaussian rational re + i im"""
    __slots__ = ("re", "im")

    def __init__(self, re=0, im=0):
        self.re = _fr(re)
        self.im = _fr(im)

    @property
    def real(self):
        return QR(self.re)

    @property
    def imag(self):
        return QR(self.im)

    def conjugate(self):
        return QI(self.re, -self.im)

    conj = conjugate

    @staticmethod
    def _c(o):
        if isinstance(o, QI):
            return o
        if isinstance(o, QR):
            return QI(o.v, 0)
        if isinstance(o, (int, Fraction, np.integer)):
            return QI(o, 0)
        if isinstance(o, (complex, np.complexfloating)):
            return QI(Fraction(float(o.real)), Fraction(float(o.imag)))
        if isinstance(o, (float, np.floating)):
            return QI(Fraction(float(o)), 0)
        return None

    def __add__(self, o):
        o = self._c(o)
        if o is None:
            return NotImplemented
        return QI(self.re + o.re, self.im + o.im)
    __radd__ = __add__

    def __sub__(self, o):
        o = self._c(o)
        if o is None:
            return NotImplemented
        return QI(self.re - o.re, self.im - o.im)

    def __rsub__(self, o):
        o = self._c(o)
        if o is None:
            return NotImplemented
        return QI(o.re - self.re, o.im - self.im)

    def __mul__(self, o):
        o = self._c(o)
        if o is None:
            return NotImplemented
        return QI(self.re * o.re - self.im * o.im, self.re * o.im + self.im * o.re)
    __rmul__ = __mul__

    def __truediv__(self, o):
        o = self._c(o)
        if o is None:
            return NotImplemented
        d = o.re * o.re + o.im * o.im
        return QI((self.re * o.re + self.im * o.im) / d, (self.im * o.re - self.re * o.im) / d)

    def __neg__(self):
        return QI(-self.re, -self.im)

    def __eq__(self, o):
        o = self._c(o)
        return o is not None and self.re == o.re and self.im == o.im

    def __hash__(self):
        return hash((self.re, self.im))

    def __repr__(self):
        return "QI(%s,%s)" % (self.re, self.im)


def qarr(vals, shape=None):
    """object array of QI from an iterable of (re, im) / numbers"""
    out = np.empty(len(vals), dtype=object)
    for i, v in enumerate(vals):
        out[i] = v if isinstance(v, QI) else (QI(*v) if isinstance(v, tuple) else QI._c(v))
    return out.reshape(shape) if shape is not None else out


def fmt_fr(f):
    f = _fr(f.v if isinstance(f, QR) else f)
    return str(f.numerator) if f.denominator == 1 else "%d/%d" % (f.numerator, f.denominator)


def fmt_q(z):
    z = QI._c(z)
    return fmt_fr(z.re) if z.im == 0 else "%s;%s" % (fmt_fr(z.re), fmt_fr(z.im))


def fmt_qlist(a):
    a = list(np.asarray(a, dtype=object).ravel())
    return ",".join(fmt_q(z) for z in a) if a else "-"
