"""MANIFEST.setup_cmd: regenerate Gen/ from /repo and build the whole Lean library + driver, offline."""
import sys

from harness import common
from harness.translate import gen as G


def main():
    class C:  # minimal ctx
        def oblige(self, name, kind, ok, detail=""):
            print("  %s %s %s" % ("ok " if ok else "BROKEN", name, detail))
    G.regenerate(C(), list(G.GENERATORS))
    with common.Lock():
        import json, os
        claimed = [c["property_id"] for c in json.load(open(os.path.join(common.VERIF, "MANIFEST.json")))["checks"]]
        rc, out = common.sh(["lake", "build", "SigpyVerif"] + ["drv_" + c.lower() for c in claimed],
                            cwd=common.LEAN, timeout=7200)
    print(out[-3000:])
    return 0 if rc == 0 else 2


if __name__ == "__main__":
    sys.exit(main())
