"""MANIFEST.setup_cmd: regenerate Gen/ from /repo and build the whole Lean library + driver, offline."""
import sys

from harness import common
from harness.translate import gen as G


def main():
    class C:  # minimal ctx
        def oblige(self, name, kind, ok, detail=""):
            print("  %s %s %s" % ("ok " if ok else "BROKEN", name, detail))
    G.regenerate(C(), list(G.GENERATORS))
    with common.Lock():
        rc, out = common.sh(["lake", "build"], cwd=common.LEAN, timeout=7200)
    print(out[-3000:])
    return 0 if rc == 0 else 2


if __name__ == "__main__":
    sys.exit(main())
