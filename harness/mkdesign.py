#!/venv/bin/python
"""Regenerates DESIGN.md §9 (as built, per property) and §10 (seeded changes) from the machinery itself:
MANIFEST table (harness/mkmanifest.py CLAIMED), the THEOREMS / LEAN_MODULES lists of every harness module,
and seeded/RESULTS.json.  Hand-written sections (0-8, 11) are left alone."""
import importlib
import json
import os
import re
import sys

HERE = os.path.dirname(os.path.dirname(os.path.abspath(__file__)))
sys.path.insert(0, HERE)
sys.path.insert(0, "/repo")

ORACLE = {
    "C01": "dot test <Ax,y> = <x,A.H y> (exact on Gaussian integers where arithmetic is exact, 1e-6 relative for FFT/NUFFT/wavelet/KB), shapes swapped, A.H.H = A, real-input branch; all Linop classes, MRI factories, random trees; regression streams for the repaired defects",
    "C02": "runtime stream: byte snapshots of every ndarray argument and captured array, np.shares_memory vs IR alias claims, repeated application (also after .H/.N), A(0) = 0 with recycled memory, exact linearity on Gaussian integers incl. real-dtype x, y with complex a",
    "C03": "dense matrix of the real tree (basis vectors) vs numpy block-matrix expression of its parts; A(x).shape = A.oshape; misfits must raise; inputs of the advertised rank whose shape differs from ishape must be rejected at application",
    "C04": "A.N(x) vs A.H(A(x)) for all classes/trees, all 1-D block layouts up to length 7; ArrayToBlocks in 1-3 D: A.H(A(x)) = A.N(x) = cover * x with the brute-force cover count (incl. stride == block with a non-dividing extent); BlocksToArray.N(1) = 1 iff B <= S or one block; Toeplitz NUFFT within 6 % / 0.6 %; Toeplitz normal judged against the NUFFT's OWN measured accuracy (eps = error of the same-parameter NUFFT against the exact NUDFT / Gram matrix; demand err <= 40 max(eps, 5e-6) scale, calibrated margin > 12x) for 18 oversamp/width pairs incl. high-accuracy ones, leading batch axes, histories of 1-4 live NUFFT objects sharing coordinates with different batch shapes / kernels / toeplitz flags, coordinate and data dtypes and layouts",
    "C05": "explicit complex128 DFT-matrix product incl. centre pad/crop in 1-4 dims, round trip, norm, dtype preservation, A.N(x) = x",
    "C06": "exact NUDFT vs sp.nufft: per-coordinate row error of the implementation matrix (< 3 % defaults, < 0.3 % oversamp 2), adjoint dot test 1e-6 over oversamp x width, periodicity (skipped at float window-edge ties), batch axes / Linops; Toeplitz normal: NUFFT(oversamp=2, width 7/8, toeplitz=True).N(x) vs A.H(A(x)) within 3e-4 (clean maximum 2.6e-5; a psf built with another kernel deviates by > 1.6e-3); correspondence stream 'identity': real nufft / nufft_adjoint matrices vs NUDFT x apodisation x kernel sum (driver window data) at 1e-9",
    "C07": "direct evaluation of the documented kernel sum in numpy, scipy.special.i0 for Kaiser-Bessel (2.5e-7), duplicates/wrapped contributions add; inputs handed over as float32 / integer coordinate dtypes, float32 / complex64 / integer data, Fortran / strided / negative-stride layouts, scaled magnitudes, width / param as Python / numpy scalars, lists, tuples, arrays; entry points function, Linop, adjoint of the dual Linop, interleaved live Linops; coordinates up to 2^27 grid units away and beyond 2^31; support-edge raster class (rounding-undecidable taps accepted either way, exact ties strict, non-finite output never accepted)",
    "C08": "independent nested-sum reference, exact integer dot tests for both adjoints, shapes, mixed real/complex dtypes (rejected with TypeError or correct, never silently real), through the functions, the four Linop classes and .H of each",
    "C09": "index loops written from the statement (pure numpy), exact equality, functions and Linops",
    "C10": "round trip, norm preservation, adjoint identity (1e-8) through sp.fwt/iwt and linop.Wavelet/.H/.H.H for every orthogonal wavelet x shapes x axes x levels x real/complex; advertised shape",
    "C11": "Fenchel-Young / normal-cone certificates composed over the nesting, objective vs perturbations, projection inequality, feasible => unchanged, idempotence, shape; deepest failing call blamed",
    "C12": "exact rationals: Krylov optimum by A-orthogonal projection, r = b - A x, monotone A-norm error, exact solution within n updates, caller's array, stop on non-positive curvature; preconditioners incl. objects returning their input; histories of 2-3 live solvers (lockstep, late start, interleaved, sequential, warm start on the previous solver's array; shared b / operator objects) each judged on its own system, interference key when a solver's x / r / p changes without its own update; operators and preconditioners returning their argument, a view of it or a re-used buffer; Fortran / strided / negative-stride / column-view x and b with sentinel cells; integer / real b with complex x; power-of-two scaled A, b, P",
    "C13": "planted-solution instances (g in {0, l2^2, l1, box}, real/complex, ill-conditioned, Nesterov's tridiagonal; operators incl. ones returning their argument): descent, both rates, saddle fixed point, Fejer monotonicity, convergence with and without acceleration, in-place identity",
    "C14": "objective gap to a reference optimum (exact solve / KKT-verified enumeration) <= 1e-6 for every supported combination (still-shrinking gaps are inconclusive), cross-solver agreement, unsupported combinations raise, y and z bytes unchanged",
    "C15": "loop bound and counter for the canonical loop and App.run (watchdog for non-termination); at an early done() with tol = 0 one extra update on a deep copy must leave the solution unchanged (stalling families: zero init + l1 + small sigma; box under momentum; saturating prox on both sides); PowerMethod monotone and <= lambda_max",
    "C16": "forward/adjoint vs the explicit formula, dot test, batch vs unbatched for every batch size, tseg/transp_nufft forwarded; recon objective gap vs dense reference per solver, consistent data reproduced, inputs unchanged and reusable",
    "C17": "per-voxel invariants on random / birdcage / low-rank k-space (norm in {1, 0}, zero exactly where eig <= crop incl. crop equal to an observed eigenvalue, coil 0 real >= 0, eig in [0, 1+1e-6]); recovery vs rss-normalised maps at 1e-2",
    "C18": "values in {0,1}; |size/sum - accel| < tol or ValueError; calibration block sampled; nothing outside the ellipse; same arguments + seed => same mask also after other calls; numpy global RNG state identical before/after; watchdog for hangs",
    "C19": "unitarity 1e-9, zero pulse, composition for all five simulators (abrm also with balanced=True); design -> simulate round trip through ab2rf (1e-6 on exact pairs) and b2rf / dzrf (1e-3); simulate -> design on the real code only: abrm_hp / blochsim at 2n equispaced frequencies, inverse DFT = the coefficients of (A, B) (upper n must vanish: degree < n), ab2rf of them in its own convention must return the pulse (1e-6)",
    "C20": "first/last sample 0, sum(trap) dt = area (1e-9), |g| <= gmax, |dg|/dt <= dgdt (1e-9 slack) over the quantified ranges incl. regime boundary and ceiling ties; min_trap_grad flat-top area; spokes_grad limits and k-space increments inside its domain (every blip fits into one slice-select lobe), what the real code does outside it (np.vstack raises / previous spoke overwritten) recorded as an observation; scalar argument types (Python / numpy float and int), spoke locations as float32 / integer arrays in C / Fortran / strided / read-only layouts, the designer calls made inside spokes_grad observed, call histories (repeats, sweeps with 1-ulp neighbours, caller edits of returned arrays, kept results re-examined) confirmed in fresh interpreters",
}


def section9():
    src = open(os.path.join(HERE, "harness", "mkmanifest.py")).read()
    ns = {"__file__": os.path.join(HERE, "harness", "mkmanifest.py")}
    exec(src.split("NOT_YET =")[0], ns)
    CL = ns["CLAIMED"]
    titles = {p["id"]: p["title"] for p in map(json.loads, open(os.path.join(HERE, "properties.jsonl")))}
    import glob
    def _wc(pat):
        return sum(open(f).read().count("\n") for f in glob.glob(os.path.join(HERE, pat)))
    n_thm = sum(len(importlib.import_module("harness.props." + p.lower()).THEOREMS) for p in CL)
    stats = ("Size at the time of generation: model %d lines of core Lean (`Model/`), %d lines generated from the Python source "
             "(`Gen/`, regenerated every run), %d lines of lemmas and property theorems (`Lemmas/`, `Props/`), %d lines of "
             "drivers; %d lines of Python harness and translator; **%d named theorems are audited with `#print axioms` across "
             "the 20 checks on every run**.\n" % (
                 _wc("lean/SigpyVerif/Model/*.lean"), _wc("lean/SigpyVerif/Gen/*.lean"),
                 _wc("lean/SigpyVerif/Lemmas/*.lean") + _wc("lean/SigpyVerif/Props/*.lean"), _wc("lean/SigpyVerif/Drv/*.lean"),
                 _wc("harness/*.py") + _wc("harness/props/*.py") + _wc("harness/translate/*.py"), n_thm))
    out = ["## 9. As built, per property\n", stats,
           "Generated by `harness/mkdesign.py` from the machinery itself (manifest table, the `THEOREMS` / `LEAN_MODULES` lists "
           "every check audits with `#print axioms` on each run — allowed axioms: propext, Classical.choice, Quot.sound). Where an "
           "entry departs from the plan in §3, this section is the truth. Typical cost on this machine: quick 5–60 s per property, "
           "thorough 10 s – 4 min (C10: ≈ 10 min).\n"]
    for pid in sorted(CL):
        mod = importlib.import_module("harness.props." + pid.lower())
        th = [t.split(".")[-1] for t in mod.THEOREMS]
        gens = sorted(set(re.findall(r'regenerate\(ctx, \[([^\]]*)\]\)', open(os.path.join(HERE, "harness", "props", pid.lower() + ".py")).read())))
        c = CL[pid]
        out.append("### %s — %s\n* **What is proved and how it is tied.** %s\n* **Trusted / validated only / not proved.** %s\n"
                   "* **Translator-regenerated modules.** %s\n* **Search oracle (real code).** %s.\n"
                   "* **Theorems audited on every run (%d).** %s.\n* **Lean modules.** %s.\n" % (
                       pid, titles[pid], c["text"], c["note"],
                       ("`Gen." + "`, `Gen.".join(x.strip().strip('"') for g in gens for x in g.split(",")) + "`") if gens else "none (hand-written model tied by correspondence)",
                       ORACLE.get(pid, "see harness/props/%s.py" % pid.lower()), len(th), ", ".join("`%s`" % t for t in th),
                       ", ".join("`%s`" % m for m in mod.LEAN_MODULES)))
    return "\n".join(out)


def section10():
    p = os.path.join(HERE, "seeded", "RESULTS.json")
    res = json.load(open(p)) if os.path.exists(p) else []
    out = ["## 10. Seeded changes and which part of which check catches them\n",
           "Every change below was written by an independent sub-agent that saw only the text of one property and its own scratch "
           "worktree of sigpy; each passes the existing test-suite, breaks the property only for specific inputs / histories, and "
           "comes with a demonstration (`seeded/<id>/demo.py`: exit 0 clean, 1 patched). The table is produced by "
           "`harness/seeded_matrix.py` (worktree of /repo HEAD + patch, `SIGPY_REPO`), from the evidence each run writes: broken "
           "proof/translate obligations, correspondence disagreements, failure keys of the search. `no-failing-input-found` means "
           "the obligations broke but the search found no input within the quick budget.\n",
           "| seeded | what it breaks (needs) | obligations broken (theorem / translate / build) | correspondence disagreements | failing input found by search (keys) | result |",
           "|---|---|---|---|---|---|"]
    for r in sorted(res, key=lambda x: x["id"]):
        c = r.get("checks", {}).get(r["property"], {})
        bk = c.get("broken_by_kind", {})
        pr = "; ".join("%s: %s" % (k, ", ".join(n.split(":")[-1].split(".")[-1] for n in v[:3]) + ("…" if len(v) > 3 else ""))
                       for k, v in bk.items() if k in ("theorem", "translate", "build")) or "—"
        resu = "VIOLATION" if c.get("exit") == 1 else "MISSED (exit %s)" % c.get("exit")
        if c.get("no_failing_input"):
            resu += " (no-failing-input-found)"
        out.append("| %s | %s (%s) | %s | %s | %s | %s |" % (
            r["id"], r["breaks"][:150].replace("|", "/"), r["needs"][:110].replace("|", "/"), pr, c.get("disagreements", "?"),
            ", ".join(sorted(set(str(x) for x in c.get("failure_keys", []))))[:110] or "—", resu))
    out.append("")
    out.append("**Changes a first version of a check missed, and what was strengthened** (all are caught now): "
               "C08-2 (scratch buffer with the filter's dtype) → mixed real/complex dtype cases in the C08 generator; "
               "C12-3 (no copy of z when a preconditioner is given) → preconditioners that return their input object (`Identity`, `lambda r: r`); "
               "C02-1 (Conj shortcut for real input) → linearity with x, y held in real-dtype arrays and a complex scalar; "
               "C02-2 (`xp.empty` in resize) → explicit-shift Resize, `A(0) = 0` and repeated application with recycled allocator memory; "
               "first reported only as `no-failing-input-found` and now with a failing input: C01-1 (per-axis width tuples in the KB dot test), "
               "C15-3 (PDHG families with saturating prox on both sides), C13-2 (operators returning their argument), "
               "C16-2 (apps receive the caller's arrays, which are reused and compared).\n")
    out.append("**Rounds 3 and 4 (this session).** 51 further changes (`Cxx-r3-k`) with a different flavour — interactions of two options, "
               "boundary conditions at exact ties, precision / dtype paths, error handling, `__init__` vs `_apply` inconsistencies, "
               "order of operations on one object, helper-module changes, argument aliasing. First measurement: 10 were missed and 9 "
               "more were reported only as `no-failing-input-found`; together with 12 such leftovers of rounds 1-2 they were given to "
               "hardening agents who had to widen the CLASS of inputs the check explores (storage dtypes, memory layouts, magnitudes, "
               "argument forms, histories of live objects, call sequences against fresh-process references, tolerances tied to measured "
               "accuracy) without special-casing a patch and keep seeds 0..9 quiet on the unchanged tree. A fourth small round (12 changes for C01, C03, C05, C09, C11, C13, written "
               "AFTER the round-3 hardening as a measurement of how the widened checks generalise) was found 9 / 12 with a failing "
               "input at first sight, 2 as `no-failing-input-found` (C03-r4-1 Vstack flattening in memory order, C11-r4-2 an L1Reg "
               "weight array scaled in place across calls) and 1 missed (C01-r4-2: the conjugate skipped for a numpy.complex64 scalar "
               "multiplier); three more hardening passes (memory layouts under stacking operators; array weights and call histories "
               "on one prox object; scalar multiplier types) closed them. Final matrix over all 175 "
               "changes (table above): 173 are reported with a concrete failing input by their own property's quick check; C16-r3-2 "
               "(LinearLeastSquares GradientMethod step from A.N alone) breaks 8 theorems of the generated set-up (C14 / C16Recon) but the "
               "C16 search finds no failing input within its iteration budget (`no-failing-input-found`; the C14 check finds one); "
               "C16-r3-3 (prox.Conj called with alpha instead of 1/alpha, visible in TotalVariationRecon only with the `sigma=` / `tau=` "
               "keywords, which C16 does not quantify over) is not seen by the C16 check and is caught with failing inputs by the "
               "properties that own the code, C11 (conj_moreau and the Conj streams) and C14. 23 seeded patches were re-based after "
               "later `fix:` commits touched the same lines (same change, demo re-verified both ways).\n")
    out.append("**Behaviour-preserving changes** (`harmless/`, 60 refactorings by independent agents, each with an equivalence program "
               "whose SHA-256 over all results is identical on the clean and the patched checkout; `harmless/RESULTS.md`). First measurement: "
               "19 left the check quiet, 41 made a translate / theorem / build obligation fail and were reported as "
               "`no-failing-input-found` (the fail-closed translators pinned the spelling: an extracted helper, a hoisted temporary or a "
               "positional -> keyword respelling was outside the accepted subset), none produced a failing input (one first appeared to, "
               "C15-1: the x4 search budget of a broken run reached an SDMM instance whose only constraint matrix was all zeros - the "
               "recorded SDMM finding, not the refactoring - which is why that class is now classified with the finding's key). A "
               "robustness wave then put source normalisers in front of every translator and re-proved shape-sensitive bridging lemmas "
               "(§2.2); each agent had to show that every seeded breaking change of its property is still reported with a failing "
               "input and tried further breaking edits through the new code paths. Final measurement (HARMLESS_SUMMARY): the remaining "
               "non-quiet refactoring is C15-2 (`_done` of ConjugateGradient written as if / elif / else: `Gen.C12.done` changes shape "
               "and two C12 / C15 theorems no longer elaborate - reported as `no-failing-input-found`).\n".replace("HARMLESS_SUMMARY", harmless_summary()))
    out.append("The builders' own hand-made breaking edits (8–27 per property, the **X** lists of §3 and subtler ones) are listed in "
               "their reports; the pattern is the same: edits inside translator-covered code break named theorems or the translate "
               "obligation *and* are found by the search; edits in hand-modelled code are found by correspondence + search; edits that "
               "leave the property true (e.g. an equivalent θ formula, a swapped bisection direction that still converges) are "
               "reported as `no-failing-input-found`, which is the documented price of the technique.\n")
    return "\n".join(out)


OBSERVATIONS = ("Observations judged outside the properties' domains (not findings): `spokes_grad` corrupts its waveforms when a blip is "
                "longer than one slice-select lobe; the `LinearLeastSquares` docstring swaps the default solvers for `G` given / not given "
                "(the code is the consistent one); `hard_thresh` at |y| = λ may return either minimiser; `sigpy.fft` converts every "
                "non-complex input, float64 included, to complex64, so real-dtype data are transformed in single precision (the C04/C06 "
                "oracles compare such inputs at single-precision tolerances); integer-dtype DATA arrays (as opposed to integer-typed "
                "coordinates / parameters, which were repaired) are truncated or rejected by interpolate, nufft and the wavelet transform — "
                "the properties quantify over real and complex data; `Linop._check_ishape` zips the shapes, so an input with extra trailing "
                "axes passes the guard (stated exactly by `C03.gen_call_accepts_iff`).")


def harmless_summary():
    try:
        r = json.load(open(os.path.join(HERE, "harmless", "RESULTS.json")))
    except Exception:  # noqa
        return "no harmless/RESULTS.json"
    import collections
    c = collections.Counter(x.get("outcome", "error") for x in r)
    return "%d quiet, %d no-failing-input-found, %d with a failing input, of %d" % (c.get("quiet", 0), c.get("unproved", 0), c.get("FALSE-ALARM", 0), len(r))


def section11():
    k = json.load(open(os.path.join(HERE, "known_findings.json")))
    out = ["## 11. Genuine defects found in sigpy and their disposition\n"]
    out.append("Every entry was reproduced against the real code by a check's search oracle (failing input in the replay) before it was "
               "repaired; each repair is one minimal unguarded `fix:` commit in /repo (the unedited test-suite passes: 125 tests), recorded in "
               "`known_findings.json` under `fixed` — a fixed entry suppresses nothing, the inputs stay in the oracles as regression cases. "
               "Defects 1–13 of §5 were seen while reading in round 0; the others were found by the checks while they were being built, "
               "deepened or hardened (round 3: the widened input classes — dtypes, layouts, magnitudes, histories — found the last eleven).\n")
    out.append("| property | commit | what failed |")
    out.append("|---|---|---|")
    for f in k["fixed"]:
        m = re.match(r"fixed: property=(\S+) (\S+) (.*)", f, re.S)
        out.append("| %s | `%s` | %s |" % (m.group(1), m.group(2), m.group(3).replace("|", "/").replace("\n", " ")))
    out.append("")
    out.append("**Known findings (recorded, not repaired).** Each is matched by its exact key, classified on the real code, so that a different "
               "violation of the same property is still reported; each check prints one `KNOWN-FINDING:` line per listed finding it meets and exits 0.\n")
    for f in k["findings"]:
        out.append("* **%s** `%s` — %s" % (f["property"], f["key"], f["what"].replace("\n", " ")))
    out.append("")
    out.append(OBSERVATIONS)
    out.append("")
    return "\n".join(out)


def main():
    p = os.path.join(HERE, "DESIGN.md")
    s = open(p).read()
    i9 = s.index("## 9. As built, per property")
    m11 = s.index("## 11. Genuine defects found in sigpy")
    s = s[:i9] + section9() + "\n" + section10() + "\n" + section11()
    open(p, "w").write(s)
    print("DESIGN.md §9/§10/§11 regenerated")


if __name__ == "__main__":
    main()
