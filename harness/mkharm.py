"""print the harmless-rewrite agent prompt for a property:  mkharm.py C09 /tmp/harm/c09 3 'test_util.py tests/test_block.py'"""
import json, sys
pid, wt, n, tests = sys.argv[1:5]
p = [json.loads(l) for l in open('/verif/properties.jsonl') if json.loads(l)['id'] == pid][0]
t = open('/verif/harness/HARMLESS_PROMPT.txt').read()
print(t.replace('{WT}', wt).replace('{TITLE}', p['title']).replace('{STATEMENT}', p['statement'])
       .replace('{QUANT}', p['quantifier']['text']).replace('{FILES}', ', '.join(p['anchors']['files']) + ' (' + '; '.join(m['where'] for m in p['anchors']['mechanism']) + ')')
       .replace('{N}', n).replace('{TESTS}', tests))
