"""Shared machinery of every property check.

A check (``./check Cxx --tier T``) does, in this order:

  1. translate   regenerate ``lean/SigpyVerif/Gen/*.lean`` from /repo's working tree
  2. build       ``lake build`` of the property's Lean modules + the driver executable
  3. audit       ``#print axioms`` for every property theorem (allowed: propext, Classical.choice,
                 Quot.sound) + grep for forbidden constructs
  4. correspond  run the model's executable definitions (Lean driver) and the real sigpy code on
                 the same inputs and compare
  5. search      property oracle on the *real* code: always a small proactive budget, a large one
                 when an obligation (1-4) is broken or the tier is thorough
  6. decide      failing input -> VIOLATION (or KNOWN-FINDING if listed);
                 broken obligation without failing input -> VIOLATION ... no-failing-input-found
  7. evidence    evidence/<id>.json

Exit codes: 0 held, 1 violation, 2 infrastructure trouble / timeout (never used for a violation).
"""
import fcntl
import hashlib
import json
import os
import random
import re
import subprocess
import sys
import time
import traceback

VERIF = os.path.dirname(os.path.dirname(os.path.abspath(__file__)))
LEAN = os.path.join(VERIF, "lean")
REPO = os.environ.get("SIGPY_REPO", "/repo")
def driver_path(prop):
    return os.path.join(LEAN, ".lake", "build", "bin", "drv_" + prop.lower())
ALLOWED_AXIOMS = {"propext", "Classical.choice", "Quot.sound"}
FORBIDDEN = re.compile(
    r"\b(sorry|admit|native_decide|bv_decide|implemented_by|unsafe)\b|^\s*axiom\s|maxHeartbeats\s+0\b"
)

LEAN_TRUSTED = [
    "Lean 4.33.0 kernel (thorough tier re-checks the property modules with leanchecker)",
    "axioms allowed in property theorems: propext, Classical.choice, Quot.sound (audited by #print axioms on every run)",
    "no sorry/admit/native_decide/bv_decide/own axioms (grep on every run)",
]


def log(*a):
    print(*a, file=sys.stderr, flush=True)


def sh(cmd, cwd=None, timeout=None, env=None, input=None):
    p = subprocess.run(
        cmd, cwd=cwd, timeout=timeout, env=env, input=input,
        stdout=subprocess.PIPE, stderr=subprocess.STDOUT, text=True,
    )
    return p.returncode, p.stdout


class Lock:
    """Serialises lake builds across concurrently running checks."""

    def __init__(self, name=".verif.lock"):
        self.path = os.path.join(LEAN, name)

    def __enter__(self):
        self.f = open(self.path, "w")
        fcntl.flock(self.f, fcntl.LOCK_EX)
        return self

    def __exit__(self, *a):
        fcntl.flock(self.f, fcntl.LOCK_UN)
        self.f.close()


def write_if_changed(path, text):
    os.makedirs(os.path.dirname(path), exist_ok=True)
    try:
        if open(path).read() == text:
            return False
    except FileNotFoundError:
        pass
    tmp = path + ".tmp%d" % os.getpid()
    with open(tmp, "w") as f:
        f.write(text)
    os.replace(tmp, path)
    return True


def strip_lean_comments(src):
    # remove /- ... -/ (nested) and -- ... comments
    out, i, depth, n = [], 0, 0, len(src)
    while i < n:
        if src.startswith("/-", i):
            depth += 1
            i += 2
        elif depth and src.startswith("-/", i):
            depth -= 1
            i += 2
        elif depth:
            if src[i] == "\n":
                out.append("\n")
            i += 1
        elif src.startswith("--", i):
            while i < n and src[i] != "\n":
                i += 1
        else:
            out.append(src[i])
            i += 1
    return "".join(out)


class Ctx:
    def __init__(self, prop, tier, seed):
        self.prop = prop
        self.tier = tier
        self.seed = seed
        self.rng = random.Random(seed * 1000003 + int(prop[1:]))
        self.t0 = time.time()
        self.obligations = []      # dict(name, kind, ok, detail)
        self.failures = []         # dict(key, what, case, observed, expected, origin)
        self.disagreements = []    # dict(stream, case, impl, model)
        self.counts = {}           # histogram of the input distribution
        self.samples = []
        self.evaluations = 0
        self.distinct = set()
        self.traces = 0
        self.notes = []
        self.assumptions = []
        self.checker_cmds = []
        self.trusted = list(LEAN_TRUSTED)
        self.rule = ""
        self._driver = None

    # ---- bookkeeping -------------------------------------------------------------------------
    def oblige(self, name, kind, ok, detail=""):
        self.obligations.append(dict(name=name, kind=kind, ok=bool(ok), detail=str(detail)[:2000]))
        if not ok:
            log("  [broken %s] %s: %s" % (kind, name, str(detail)[:400]))

    def count(self, key, n=1):
        self.counts[key] = self.counts.get(key, 0) + n

    def case(self, canon, nontrivial=True, sample=None):
        """register one explored case; canon is a hashable canonical form."""
        self.evaluations += 1
        if nontrivial:
            self.distinct.add(hashlib.sha1(repr(canon).encode()).hexdigest()[:16])
        if sample is not None and len(self.samples) < 12:
            self.samples.append(sample)

    def disagree(self, stream, case, impl, model):
        self.disagreements.append(dict(stream=stream, case=case, impl=_short(impl), model=_short(model)))
        if len(self.disagreements) <= 5:
            log("  [disagree %s] case=%s impl=%s model=%s" % (stream, _short(case), _short(impl), _short(model)))

    def fail(self, key, what, case, observed=None, expected=None, origin="oracle"):
        """a concrete input on which the REAL code violates the property."""
        self.failures.append(dict(key=key, what=what, case=case, observed=_short(observed, 4000),
                                  expected=_short(expected, 4000), origin=origin))
        if len(self.failures) <= 5:
            log("  [FAIL %s] %s case=%s" % (key, what, _short(case)))

    def elapsed(self):
        return time.time() - self.t0

    @property
    def broken(self):
        return [o for o in self.obligations if not o["ok"]]

    # ---- Lean side ---------------------------------------------------------------------------
    def lake_build(self, targets):
        with Lock():
            cmd = ["lake", "build"] + list(targets)
            self.checker_cmds.append("cd lean && " + " ".join(cmd))
            t = time.time()
            rc, out = sh(cmd, cwd=LEAN, timeout=3000)
            log("  lake build %s -> rc=%d (%.1fs)" % (" ".join(targets), rc, time.time() - t))
        return rc == 0, out

    def build_and_audit(self, modules, theorems, extra_targets=None):
        """modules: Lean module names holding the property theorems; theorems: fully qualified names."""
        if extra_targets is None:
            extra_targets = ("drv_" + self.prop.lower(),)
        ok, out = self.lake_build(list(modules) + list(extra_targets))
        errs = _lake_errors(out)
        self.build_log = out
        if not ok:
            for m in modules:
                m_ok, m_out = self.lake_build([m])
                if not m_ok:
                    e = _lake_errors(m_out)
                    errs = errs or e
                    self.oblige("build:" + m, "build", False, "; ".join(e[:6]) or m_out[-1500:])
            d_ok, d_out = self.lake_build(list(extra_targets))
            if not d_ok:
                self.oblige("build:driver", "build", False, "; ".join(_lake_errors(d_out)[:6]) or d_out[-1500:])
        # forbidden constructs
        bad = []
        for root, _, files in os.walk(os.path.join(LEAN, "SigpyVerif")):
            for fn in files:
                if fn.endswith(".lean"):
                    src = strip_lean_comments(open(os.path.join(root, fn)).read())
                    for ln, line in enumerate(src.split("\n"), 1):
                        if FORBIDDEN.search(line):
                            bad.append("%s:%d:%s" % (fn, ln, line.strip()[:80]))
        self.oblige("grep:no-sorry-no-axiom", "audit", not bad, "; ".join(bad[:10]))
        # axiom audit, one temp file per property
        failed_mods = [m for m in modules if not self._olean_fresh(m)] if not ok else []
        audit = os.path.join(LEAN, ".lake", "audit_%s.lean" % self.prop)
        os.makedirs(os.path.dirname(audit), exist_ok=True)
        good_mods = [m for m in modules if m not in failed_mods]
        body = "".join("import %s\n" % m for m in good_mods) + "".join(
            "#print axioms %s\n" % t for t in theorems)
        with open(audit, "w") as f:
            f.write(body)
        cmd = ["lake", "env", "lean", audit]
        self.checker_cmds.append("cd lean && lake env lean .lake/audit_%s.lean  # #print axioms of %d theorems" % (self.prop, len(theorems)))
        rc, aout = sh(cmd, cwd=LEAN, timeout=1800)
        found = _parse_axioms(aout)
        # a module that failed to build: elaborate its source directly so that the theorems which
        # still check are credited and exactly the broken ones are named
        for m in failed_mods:
            src_path = os.path.join(LEAN, *m.split(".")) + ".lean"
            tmp = os.path.join(LEAN, ".lake", "audit_src_%s_%s.lean" % (self.prop, m.split(".")[-1]))
            try:
                src = open(src_path).read()
            except OSError:
                continue
            nlines = src.count("\n") + 1
            with open(tmp, "w") as f:
                f.write(src + "\n" + "".join("#print axioms %s\n" % t for t in theorems))
            rc2, out2 = sh(["lake", "env", "lean", tmp], cwd=LEAN, timeout=3000)
            bad_decls = set()
            for mm in re.finditer(r"^[^\n]*?:(\d+):(\d+): error", out2, re.M):
                ln = int(mm.group(1))
                if ln <= nlines:
                    bad_decls.add(_enclosing_decl(src_path, ln))
            f2 = _parse_axioms(out2)
            for t, ax in f2.items():
                if t.split(".")[-1] in bad_decls or "sorryAx" in ax:
                    continue
                found.setdefault(t, ax)
        for t in theorems:
            short = t.split(".")[-1]
            if t in found:
                extra = set(found[t]) - ALLOWED_AXIOMS
                self.oblige("theorem:" + t, "theorem", not extra,
                            "axioms=%s" % sorted(found[t]) if not extra else "disallowed axioms %s" % sorted(extra))
            else:
                hint = [e for e in errs if short in e]
                self.oblige("theorem:" + t, "theorem", False,
                            "no longer checks against the regenerated/current model. " + "; ".join((hint or errs)[:3]))
        return ok

    def _olean_fresh(self, module):
        p = os.path.join(LEAN, ".lake", "build", "lib", "lean", *module.split(".")) + ".olean"
        src = os.path.join(LEAN, *module.split(".")) + ".lean"
        ok, _ = self.lake_build([module])
        return ok and os.path.exists(p) and os.path.exists(src)

    def leanchecker(self, modules):
        cmd = ["lake", "env", "leanchecker"] + list(modules)
        self.checker_cmds.append("cd lean && " + " ".join(cmd))
        with Lock():
            rc, out = sh(cmd, cwd=LEAN, timeout=3000)
        self.oblige("leanchecker:" + ",".join(modules), "audit", rc == 0, out[-800:])

    def driver_guarded(self, lines, prop=None, chunk=40, chunk_timeout=25, line_timeout=8):
        """like driver(), but a request the model cannot answer quickly (e.g. an entry list that blows up under
        repeated composition) is answered `err model-timeout` instead of stalling the whole check; callers must
        treat that reply as "not compared" (count it), never as agreement or disagreement."""
        exe = driver_path(prop or self.prop)
        if not os.path.exists(exe):
            return ["err no-driver"] * len(lines)
        out = []
        for i in range(0, len(lines), chunk):
            part = lines[i:i + chunk]
            try:
                p = subprocess.run([exe], input="\n".join(part) + "\n", stdout=subprocess.PIPE, stderr=subprocess.PIPE,
                                   text=True, timeout=chunk_timeout)
                rep = p.stdout.split("\n")
                if rep and rep[-1] == "":
                    rep.pop()
                if len(rep) == len(part):
                    out.extend(rep)
                    continue
            except subprocess.TimeoutExpired:
                pass
            for ln in part:   # slow or crashed chunk: one request at a time
                try:
                    p = subprocess.run([exe], input=ln + "\n", stdout=subprocess.PIPE, stderr=subprocess.PIPE, text=True,
                                       timeout=line_timeout)
                    r = p.stdout.split("\n")[0] if p.stdout else "err driver-crash"
                except subprocess.TimeoutExpired:
                    r = "err model-timeout"
                    self.count("driver:model-timeout")
                out.append(r)
        return out

    def driver(self, lines, prop=None):
        """run protocol lines through the compiled Lean driver of this property (or of `prop`);
        returns the list of reply lines."""
        if not lines:
            return []
        DRIVER = driver_path(prop or self.prop)
        if not os.path.exists(DRIVER):
            return ["err no-driver"] * len(lines)
        data = "\n".join(lines) + "\n"
        try:
            p = subprocess.run([DRIVER], input=data, stdout=subprocess.PIPE, stderr=subprocess.PIPE,
                               text=True, timeout=1800)
        except subprocess.TimeoutExpired:
            return ["err driver-timeout"] * len(lines)
        out = p.stdout.split("\n")
        if out and out[-1] == "":
            out.pop()
        if len(out) != len(lines):
            out = out + ["err driver-crash " + p.stderr[-200:].replace("\n", " ")] * (len(lines) - len(out))
        return out


def _short(x, n=600):
    s = x if isinstance(x, str) else repr(x)
    return s if len(s) <= n else s[:n] + "…(%d chars)" % len(s)


def _lake_errors(out):
    errs = []
    for m in re.finditer(r"^error: ([^\n]*\.lean):(\d+):(\d+): ([^\n]*)", out, re.M):
        path, line = m.group(1), int(m.group(2))
        thm = _enclosing_decl(os.path.join(LEAN, path) if not os.path.isabs(path) else path, line)
        errs.append("%s:%d [%s] %s" % (os.path.basename(path), line, thm, m.group(4)[:160]))
    return errs


def _enclosing_decl(path, line):
    try:
        lines = open(path).read().split("\n")
    except OSError:
        return "?"
    for i in range(min(line, len(lines)) - 1, -1, -1):
        m = re.match(r"\s*(?:@\[[^\]]*\]\s*)?(?:private\s+|protected\s+)?(theorem|lemma|def|abbrev|instance|example)\s+([^\s:({\[]+)?", lines[i])
        if m:
            return m.group(2) or m.group(1)
    return "?"


def _parse_axioms(out):
    found = {}
    for m in re.finditer(r"'([^']+)' depends on axioms: \[([^\]]*)\]", out, re.S):
        found[m.group(1)] = [a.strip() for a in m.group(2).replace("\n", " ").split(",") if a.strip()]
    for m in re.finditer(r"'([^']+)' does not depend on any axioms", out):
        found[m.group(1)] = []
    return found


# ---- known findings ---------------------------------------------------------------------------
def load_known():
    p = os.path.join(VERIF, "known_findings.json")
    try:
        return json.load(open(p))
    except FileNotFoundError:
        return {"findings": [], "fixed": []}


# ---- finish -----------------------------------------------------------------------------------
def finish(ctx, level="proof"):
    known = {(k["property"], k["key"]): k for k in load_known().get("findings", [])}
    os.makedirs(os.path.join(VERIF, "replay"), exist_ok=True)
    evdir = os.environ.get("VERIF_EVIDENCE_DIR") or os.path.join(VERIF, "evidence")
    os.makedirs(evdir, exist_ok=True)
    new_fail, known_hit = [], {}
    for f in ctx.failures:
        k = (ctx.prop, f["key"])
        if k in known:
            known_hit.setdefault(f["key"], f)
        else:
            new_fail.append(f)
    exit_code = 0
    lines = []
    for key, f in known_hit.items():
        lines.append("KNOWN-FINDING: property=%s %s (%s)" % (ctx.prop, known[(ctx.prop, key)]["what"], key))
    broken = ctx.broken
    if new_fail:
        # one replay per distinct key (first = smallest found)
        seen = set()
        for f in new_fail:
            if f["key"] in seen:
                continue
            seen.add(f["key"])
            path = _write_replay(ctx, dict(kind="failing-input", finding_key=f["key"], what=f["what"],
                                           case=f["case"], observed=f["observed"], expected=f["expected"],
                                           origin=f["origin"],
                                           broken_obligations=[o["name"] for o in broken]))
            lines.append("VIOLATION property=%s replay=%s" % (ctx.prop, path))
            if len(seen) >= 5:
                break
        exit_code = 1
    elif broken and not known_hit_covers(broken, known_hit):
        path = _write_replay(ctx, dict(kind="broken-obligation",
                                       obligations=broken,
                                       disagreements=ctx.disagreements[:20],
                                       note="the property is no longer shown to hold: the listed theorem(s) / "
                                            "correspondence stream(s) no longer check and the failing-input search "
                                            "on the real code found nothing within its budget"))
        lines.append("VIOLATION property=%s replay=%s no-failing-input-found" % (ctx.prop, path))
        exit_code = 1
    n_ob = len(ctx.obligations)
    n_ok = sum(1 for o in ctx.obligations if o["ok"])
    ev = dict(
        property_id=ctx.prop, tier=ctx.tier, seed=ctx.seed, level=level,
        coverage=dict(
            obligations=n_ob, discharged=n_ok,
            checker_cmd=" && ".join(dict.fromkeys(ctx.checker_cmds)) or "none",
            trusted_base=ctx.trusted,
            obligation_list=[dict(name=o["name"], kind=o["kind"], ok=o["ok"]) for o in ctx.obligations],
            evaluations=ctx.evaluations, distinct_nontrivial=len(ctx.distinct), rule=ctx.rule,
            samples=ctx.samples[:12] or ["(no correspondence samples in this run)"],
            traces_validated_against_impl=ctx.traces,
            input_distribution=dict(sorted(ctx.counts.items())),
            disagreements=len(ctx.disagreements),
            known_findings_hit=sorted(known_hit),
            notes=ctx.notes,
        ),
        assumptions=ctx.assumptions,
        wall_s=round(ctx.elapsed(), 2),
        violations=len(new_fail) + (1 if (exit_code == 1 and not new_fail) else 0),
    )
    with open(os.path.join(evdir, ctx.prop + ".json"), "w") as f:
        json.dump(ev, f, indent=1, default=str)
    for ln in lines:
        print(ln, flush=True)
    print("%s tier=%s seed=%d obligations=%d/%d evaluations=%d distinct=%d disagreements=%d failures=%d wall=%.1fs -> %s" % (
        ctx.prop, ctx.tier, ctx.seed, n_ok, n_ob, ctx.evaluations, len(ctx.distinct), len(ctx.disagreements),
        len(ctx.failures), ctx.elapsed(), "OK" if exit_code == 0 else "VIOLATION"), flush=True)
    return exit_code


def known_hit_covers(broken, known_hit):
    """broken obligations that are exactly explained by known findings do not alarm again:
    an obligation may name the finding keys that explain it in its detail as `explained-by:<key>`."""
    for o in broken:
        m = re.findall(r"explained-by:(\S+)", o["detail"])
        if not m or not all(k in known_hit for k in m):
            return False
    return True


def _write_replay(ctx, body):
    body = dict(property=ctx.prop, seed=ctx.seed, tier=ctx.tier, **body)
    blob = json.dumps(body, indent=1, default=str, sort_keys=True)
    h = hashlib.sha1(blob.encode()).hexdigest()[:10]
    path = os.path.join(VERIF, "replay", "%s-%s.json" % (ctx.prop, h))
    with open(path, "w") as f:
        f.write(blob)
    return path


def run_property(mod, prop, tier, seed):
    ctx = Ctx(prop, tier, seed)
    try:
        # bring every generated file up to date with the current source first (a previous run may
        # have left definitions generated from a different tree); failures here are only recorded
        # by the properties that declare the file in their own translate()
        try:
            from harness.translate import gen as _G
            _G.regenerate(None, list(_G.GENERATORS))
        except Exception:
            pass
        if hasattr(mod, "translate"):
            try:
                mod.translate(ctx)
            except Exception as e:  # translator met something outside its subset
                ctx.oblige("translate:" + prop, "translate", False, "translator failed: %r" % (e,))
                log(traceback.format_exc())
        ctx.build_and_audit(mod.LEAN_MODULES, mod.THEOREMS)
        if tier == "thorough" and not ctx.broken:
            ctx.leanchecker(mod.LEAN_MODULES)
        if hasattr(mod, "correspond"):
            try:
                mod.correspond(ctx)
            except Exception as e:
                ctx.oblige("correspond:" + prop, "correspondence", False, "harness exception: %r" % (e,))
                log(traceback.format_exc())
        budget = dict(quick=1.0, thorough=8.0)[tier]
        if ctx.broken:
            budget *= 4
        if hasattr(mod, "search"):
            try:
                mod.search(ctx, budget)
            except Exception as e:
                ctx.oblige("search:" + prop, "search", False, "oracle exception: %r" % (e,))
                log(traceback.format_exc())
        return finish(ctx)
    except subprocess.TimeoutExpired:
        log("timeout")
        return 2
