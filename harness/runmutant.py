#!/venv/bin/python
"""Run checks against a seeded change without touching /repo.

  harness/runmutant.py <dir-with-patch.diff> C09 [C01 ...] [--tier quick] [--verif /work/mrunN]

Creates a scratch worktree of /repo at HEAD under /tmp/mutrun/<name>, applies the patch, verifies the
demo (demo.py must exit 1 with the patch, 0 without), runs each check with SIGPY_REPO pointing at the
worktree, removes the worktree, and prints one line per check.  Exit 0 if every listed check reported
a VIOLATION, 1 otherwise.
"""
import os
import subprocess
import sys
import shutil

def sh(cmd, **kw):
    return subprocess.run(cmd, stdout=subprocess.PIPE, stderr=subprocess.STDOUT, text=True, **kw)

def main():
    args = sys.argv[1:]
    tier, verif = "quick", os.path.dirname(os.path.dirname(os.path.abspath(__file__)))
    if "--tier" in args:
        i = args.index("--tier"); tier = args[i + 1]; del args[i:i + 2]
    if "--verif" in args:
        i = args.index("--verif"); verif = args[i + 1]; del args[i:i + 2]
    d, props = os.path.abspath(args[0]), args[1:]
    name = os.path.basename(d.rstrip("/")) + "_%d" % os.getpid()
    wt = "/tmp/mutrun/" + name
    os.makedirs("/tmp/mutrun", exist_ok=True)
    sh(["git", "-C", "/repo", "worktree", "add", "--detach", wt, "HEAD"])
    try:
        demo = os.path.join(d, "demo.py")
        env = dict(os.environ, PYTHONPATH=wt)
        if os.path.exists(demo):
            r0 = sh(["/venv/bin/python", demo], env=env, cwd=wt)
        r = sh(["git", "-C", wt, "apply", os.path.join(d, "patch.diff")])
        if r.returncode != 0:
            print("PATCH DOES NOT APPLY:", r.stdout[-500:]); return 2
        if os.path.exists(demo):
            r1 = sh(["/venv/bin/python", demo], env=env, cwd=wt)
            print("demo: clean exit=%d, patched exit=%d" % (r0.returncode, r1.returncode))
        ok = True
        for p in props:
            env2 = dict(os.environ, SIGPY_REPO=wt, VERIF_EVIDENCE_DIR="/tmp/mutrun/evidence")
            r = sh([os.path.join(verif, "check"), p, "--tier", tier], env=env2, cwd=verif)
            v = [l for l in r.stdout.split("\n") if l.startswith("VIOLATION")] + [l[:120] for l in r.stdout.split("\n") if l.startswith("KNOWN-FINDING")]
            last = [l for l in r.stdout.split("\n") if l.startswith(p + " tier=")]
            print("%s exit=%d %s | %s" % (p, r.returncode, "; ".join(v)[:300], (last or [""])[0][:200]))
            if r.returncode != 1:
                ok = False
        return 0 if ok else 1
    finally:
        sh(["git", "-C", "/repo", "worktree", "remove", "--force", wt])
        # restore Gen files / driver to the clean tree state
        sh([os.path.join(verif, "check"), "setup"], cwd=verif)

if __name__ == "__main__":
    sys.exit(main())
