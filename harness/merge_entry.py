#!/venv/bin/python
"""merge_entry.py <their mkmanifest.py> <PROP> [<PROP> ...] — transplant CLAIMED entries from an agent's copy into ours"""
import sys
def entry(src, pid):
    i = src.index('    "%s": dict(' % pid)
    j = src.index("),\n", src.index("        design=", i)) + 3
    return src[i:j]
theirs = open(sys.argv[1]).read()
p = '/verif/harness/mkmanifest.py'
cur = open(p).read()
for pid in sys.argv[2:]:
    cur = cur.replace(entry(cur, pid), entry(theirs, pid))
    print("merged", pid)
open(p, 'w').write(cur)
