#!/bin/bash
# matrix_shards.sh N  — run harness/seeded_matrix.py over all seeded changes in N private clones of /verif
# (each with its own Lean build, so the clean tree's Gen/ files in /verif are never disturbed), then merge the
# shard results into /verif/seeded/RESULTS.json / RESULTS.md.   Scratch: /work/mx<k> (removed at the end).
N=${1:-4}
cd /verif
ids=($(ls seeded | grep -E '^C[0-9]+'))
for k in $(seq 0 $((N-1))); do
  (
    rm -rf /work/mx$k; git clone -q /verif /work/mx$k; cd /work/mx$k
    rm -f seeded/RESULTS.json
    ./check setup > setup.log 2>&1
    mine=(); i=0; for s in "${ids[@]}"; do if [ $((i % N)) -eq $k ]; then mine+=($s); fi; i=$((i+1)); done
    harness/seeded_matrix.py "${mine[@]}" > matrix.log 2>&1
  ) &
done
wait
/venv/bin/python - <<PY
import json, glob, subprocess
res = {}
for f in sorted(glob.glob('/work/mx*/seeded/RESULTS.json')):
    for r in json.load(open(f)):
        res[r['id']] = r
json.dump([res[k] for k in sorted(res)], open('/verif/seeded/RESULTS.json', 'w'), indent=1)
print(len(res), 'results merged')
PY
