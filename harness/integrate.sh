#!/bin/bash
# integrate.sh <workdir>   — list what an agent clone changed relative to the commit it was cloned from,
# copy added/modified property files into /verif, and show diffs of shared files for manual review.
set -e
W=$1
cd $W
BASE=$(git merge-base HEAD origin/main)
echo "base=$BASE"
git diff --name-status $BASE HEAD | grep -v "^D" | while read st f; do
  case "$f" in
    evidence/*|replay/*|MANIFEST.json|lean/SigpyVerif.lean|lean/lakefile.toml|lean/Driver.lean) echo "SKIP   $f";;
    harness/common.py|harness/translate/py2lean.py|harness/translate/gen.py|lean/SigpyVerif/Model/Py.lean|lean/SigpyVerif/Model/Proto.lean|lean/SigpyVerif/Model/Apply.lean|lean/SigpyVerif/Lemmas/Py.lean|check|harness/setup.py|harness/BUILDER_GUIDE.md|DESIGN.md|known_findings.json|.gitignore|harness/props/c09.py|lean/SigpyVerif/Props/C09.lean|lean/SigpyVerif/Model/C09.lean|lean/SigpyVerif/Drv/C09.lean)
      echo "SHARED $st $f  (review: git -C $W diff $BASE HEAD -- $f)";;
    *) mkdir -p /verif/$(dirname $f); cp $W/$f /verif/$f; echo "COPIED $st $f";;
  esac
done
